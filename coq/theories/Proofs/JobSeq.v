(* C10: JobSequencing (Lucas 6.3): what the QUBO computes, and that with A > B * max length every ground state is a valid
   assignment of least makespan with worker 0 the most loaded one, energy B * makespan. *)
From QV.Model Require Import Base Matrix Arith Expr Extrema Sat PCBO Problems.
From QV.Proofs Require Import BaseProofs KeyProofs ArithProofs ExprProofs InvProofs ConvertProofs SetCoverProofs.
From QV.Proofs Require PenaltyArith.
From Coq Require Import Lia Lqa.
Open Scope Q_scope.

Lemma nQ0 : nQ 0 == 0. Proof. reflexivity. Qed.
Lemma nQ1 : nQ 1 == 1. Proof. reflexivity. Qed.

(* ---- sums over arbitrary lists ---- *)
Fixpoint gsum {T} (h : T -> Q) (l : list T) : Q := match l with [] => 0 | a :: r => h a + gsum h r end.
Lemma gsum_ext {T} (h h' : T -> Q) l : (forall a, In a l -> h a == h' a) -> gsum h l == gsum h' l.
Proof. induction l as [|a l IH]; simpl; intros H; [reflexivity|]. rewrite (H a (or_introl eq_refl)), IH; [reflexivity| intros b Hb; apply H; right; exact Hb]. Qed.
Lemma gsum_scale {T} c (h : T -> Q) l : gsum (fun a => c * h a) l == c * gsum h l.
Proof. induction l as [|a l IH]; simpl; [ring|]. rewrite IH. ring. Qed.
Lemma gsum_add {T} (h g : T -> Q) l : gsum (fun a => h a + g a) l == gsum h l + gsum g l.
Proof. induction l as [|a l IH]; simpl; [ring|]. rewrite IH. ring. Qed.
Lemma gsum_flat_map {T} x (f : T -> terms) l : eval x (flat_map f l) == gsum (fun a => eval x (f a)) l.
Proof. induction l as [|a l IH]; simpl; [reflexivity|]. rewrite eval_app, IH. reflexivity. Qed.
Lemma gsum_const {T} (c : Q) (l : list T) : gsum (fun _ => c) l == nQ (length l) * c.
Proof. induction l as [|a l IH]; [cbn [gsum length]; rewrite nQ0; ring|]. cbn [gsum length]. rewrite IH, nQ_S. ring. Qed.
Lemma gsum_lsum (h : nat -> Q) l : gsum h l == lsum h l.
Proof. induction l as [|a l IH]; simpl; [reflexivity|]. rewrite IH. reflexivity. Qed.

(* sum over b of c_b * x_a * x_(l b) *)
Lemma eval_row {T} x (a0 : label) (lb : T -> label) (c : T -> Q) l :
  eval x (map (fun b => ([a0; lb b], c b)) l) == x a0 * gsum (fun b => c b * x (lb b)) l.
Proof. induction l as [|b l IH]; simpl; [ring|]. rewrite IH. ring. Qed.

(* ---- the pieces of JobSequencing.to_qubo ---- *)
Section JS.
  Variables (m N : nat) (jobs : list (nat * Q)) (log_trick : bool) (maxM : nat) (A B : Q).
  Definition cf (n : nat) : Q := if log_trick then pow2 n else nQ (S n).
  Definition X (j w : nat) : label := js_x m j w.
  Definition Yl (n w : nat) : label := js_y N m n w.
  Variable x : env.
  Hypothesis Hx : boolean_env x.

  Definition s_j (j : nat) : Q := lsum (fun w => x (X j w)) (seq 0 m).
  Definition L_w (w : nat) : Q := gsum (fun '(j, len) => len * x (X j w)) jobs.
  Definition Y_w (w : nat) : Q := lsum (fun n => cf n * x (Yl n w)) (seq 0 maxM).

  Lemma onehot_part j :
    eval x (flat_map (fun w => ([X j w], - (2 * A)) :: map (fun wp => ([X j w; X j wp], A)) (seq 0 m)) (seq 0 m))
    == A * ((1 - s_j j) * (1 - s_j j)) - A.
  Proof.
    rewrite gsum_flat_map.
    rewrite (gsum_ext _ (fun w => (- (2 * A)) * x (X j w) + A * s_j j * x (X j w)) (seq 0 m)).
    - rewrite gsum_add, !gsum_scale, gsum_lsum. fold (s_j j). ring.
    - intros w _. cbn [eval mon]. rewrite eval_row. unfold s_j.
      rewrite gsum_scale, gsum_lsum. ring.
  Qed.

  Lemma slack_sq w :
    eval x (flat_map (fun n => map (fun np => ([Yl n w; Yl np w], A * (if log_trick then pow2 (n + np) else nQ (S n) * nQ (S np)))) (seq 0 maxM)) (seq 0 maxM))
    == A * (Y_w w * Y_w w).
  Proof.
    rewrite gsum_flat_map.
    rewrite (gsum_ext _ (fun n => (A * Y_w w) * (cf n * x (Yl n w))) (seq 0 maxM)).
    - rewrite gsum_scale, gsum_lsum. fold (Y_w w). ring.
    - intros n _. rewrite eval_row.
      rewrite (gsum_ext _ (fun b => (A * cf n) * (cf b * x (Yl b w))) (seq 0 maxM)).
      + rewrite gsum_scale, gsum_lsum. fold (Y_w w). ring.
      + intros b _. unfold cf. destruct log_trick; [rewrite pow2_plus|]; ring.
  Qed.

  Lemma slack_cross w n :
    eval x (flat_map (fun '(j, len) => [([Yl n w; X j w], 2 * A * len * cf n); ([Yl n w; X j 0%nat], - (2 * A * len * cf n))]) jobs)
    == 2 * A * (cf n * x (Yl n w)) * (L_w w - L_w 0%nat).
  Proof.
    unfold L_w. induction jobs as [|[j len] js IH]; [simpl; ring|]. cbn [flat_map app eval mon gsum]. rewrite IH. ring.
  Qed.

  Lemma load_sq w :
    eval x (flat_map (fun '(j, len) => flat_map (fun '(jp, lenp) =>
          let v := A * len * lenp in
          [([X j w; X jp w], v); ([X j 0%nat; X jp 0%nat], v); ([X j 0%nat; X jp w], - v); ([X j w; X jp 0%nat], - v)]) jobs) jobs)
    == A * ((L_w w - L_w 0%nat) * (L_w w - L_w 0%nat)).
  Proof.
    assert (Inner : forall (j : nat) (len : Q) l, eval x (flat_map (fun '(jp, lenp) =>
          let v := A * len * lenp in
          [([X j w; X jp w], v); ([X j 0%nat; X jp 0%nat], v); ([X j 0%nat; X jp w], - v); ([X j w; X jp 0%nat], - v)]) l)
          == A * len * (x (X j w) - x (X j 0%nat)) * (gsum (fun '(jp, lenp) => lenp * x (X jp w)) l - gsum (fun '(jp, lenp) => lenp * x (X jp 0%nat)) l)).
    { intros j len l. induction l as [|[jp lenp] l IH]; [simpl; ring|]. cbn [flat_map app eval mon gsum]. cbv zeta. cbn [eval mon]. rewrite IH. ring. }
    rewrite gsum_flat_map.
    rewrite (gsum_ext _ (fun p => (A * (L_w w - L_w 0%nat)) * (snd p * x (X (fst p) w)) - (A * (L_w w - L_w 0%nat)) * (snd p * x (X (fst p) 0%nat))) jobs).
    - assert (G : forall c0 w0, gsum (fun p : nat * Q => c0 * (snd p * x (X (fst p) w0))) jobs == c0 * L_w w0).
      { intros c0 w0. rewrite gsum_scale. unfold L_w. apply Qmult_comp; [reflexivity|]. apply gsum_ext. intros [j len] _. reflexivity. }
      rewrite (gsum_ext _ (fun p => (A * (L_w w - L_w 0%nat)) * (snd p * x (X (fst p) w)) + (- (A * (L_w w - L_w 0%nat))) * (snd p * x (X (fst p) 0%nat))) jobs)
        by (intros; ring).
      rewrite gsum_add, !G. ring.
    - intros [j len] _. rewrite Inner. fold (L_w w) (L_w 0%nat). cbn [fst snd]. ring.
  Qed.
End JS.

(* ---- the whole QUBO ---- *)
Definition js_jobs (lengths : list Q) : list (nat * Q) := combine (seq 0 (length lengths)) lengths.
Definition js_maxM (log_trick : bool) (M : nat) : nat := if log_trick then sc_logM M else M.
Definition js_onehot_items (m : nat) (A : Q) (p : nat * Q) : terms :=
  let '(j, _) := p in
  flat_map (fun w => ([X m j w], - (2 * A)) :: map (fun wp => ([X m j w; X m j wp], A)) (seq 0 m)) (seq 0 m).
Definition js_worker_items (m N : nat) (jobs : list (nat * Q)) (log_trick : bool) (maxM : nat) (A : Q) (w : nat) : terms :=
  flat_map (fun n =>
      map (fun np => ([Yl m N n w; Yl m N np w], A * (if log_trick then pow2 (n + np) else nQ (S n) * nQ (S np)))) (seq 0 maxM)
      ++ flat_map (fun '(j, len) => [([Yl m N n w; X m j w], 2 * A * len * cf log_trick n); ([Yl m N n w; X m j 0%nat], - (2 * A * len * cf log_trick n))]) jobs)
    (seq 0 maxM)
  ++ flat_map (fun '(j, len) => flat_map (fun '(jp, lenp) =>
        let v := A * len * lenp in
        [([X m j w; X m jp w], v); ([X m j 0%nat; X m jp 0%nat], v); ([X m j 0%nat; X m jp w], - v); ([X m j w; X m jp 0%nat], - v)]) jobs) jobs.

Lemma js_to_qubo_unfold lengths m log_trick M A B :
  js_to_qubo lengths m log_trick M A B =
  let N := length lengths in let jobs := js_jobs lengths in
  bind (m_iadd (empty_model KQuboM) (OScalar (nQ N * A))) (fun Q0 =>
  bind (add_items Q0 (map (fun '(j, len) => ([X m j 0%nat], B * len)) jobs)) (fun Q1 =>
  bind (add_items Q1 (flat_map (js_onehot_items m A) jobs)) (fun Q2 =>
  add_items Q2 (flat_map (js_worker_items m N jobs log_trick (js_maxM log_trick M) A) (seq 1 (m - 1)))))).
Proof. reflexivity. Qed.

Definition js_pen1 (m : nat) (x : env) (jobs : list (nat * Q)) : Q := gsum (fun p => (1 - s_j m x (fst p)) * (1 - s_j m x (fst p))) jobs.
Definition js_res (m N : nat) (jobs : list (nat * Q)) (lg : bool) (maxM : nat) (x : env) (w : nat) : Q :=
  Y_w m N lg maxM x w + L_w m jobs x w - L_w m jobs x 0%nat.
Definition js_pen2 (m N : nat) (jobs : list (nat * Q)) (lg : bool) (maxM : nat) (x : env) : Q :=
  lsum (fun w => js_res m N jobs lg maxM x w * js_res m N jobs lg maxM x w) (seq 1 (m - 1)).

Lemma worker_value m N jobs lg maxM A x w : boolean_env x ->
  eval x (js_worker_items m N jobs lg maxM A w) == A * (js_res m N jobs lg maxM x w * js_res m N jobs lg maxM x w).
Proof.
  intros Hx. unfold js_worker_items. rewrite eval_app, gsum_flat_map.
  rewrite (gsum_ext _ (fun n => eval x (map (fun np => ([Yl m N n w; Yl m N np w], A * (if lg then pow2 (n + np) else nQ (S n) * nQ (S np)))) (seq 0 maxM))
                              + 2 * A * (cf lg n * x (Yl m N n w)) * (L_w m jobs x w - L_w m jobs x 0%nat)) (seq 0 maxM))
    by (intros n _; rewrite eval_app, slack_cross; reflexivity).
  rewrite gsum_add, <- gsum_flat_map, (slack_sq m N lg maxM A x w), (load_sq m jobs A x w).
  rewrite (gsum_ext _ (fun n => (2 * A * (L_w m jobs x w - L_w m jobs x 0%nat)) * (cf lg n * x (Yl m N n w))) (seq 0 maxM)) by (intros; ring).
  rewrite gsum_scale, gsum_lsum. fold (Y_w m N lg maxM x w). unfold js_res. ring.
Qed.

Lemma eval_loads0 m B x (jobs : list (nat * Q)) :
  eval x (map (fun '(j, len) => ([X m j 0%nat], B * len)) jobs) == B * L_w m jobs x 0%nat.
Proof. unfold L_w. induction jobs as [|[j len] js IH]; simpl; [ring|]. rewrite IH. ring. Qed.

Theorem js_value lengths m lg M A B Qf : js_to_qubo lengths m lg M A B = Ok Qf ->
  forall x, boolean_env x ->
  let N := length lengths in let jobs := js_jobs lengths in let maxM := js_maxM lg M in
  eval x (tm Qf) == B * L_w m jobs x 0%nat + A * js_pen1 m x jobs + A * js_pen2 m N jobs lg maxM x.
Proof.
  rewrite js_to_qubo_unfold. cbv zeta. unfold add_items. intros H x Hx.
  destruct (m_iadd (empty_model KQuboM) _) as [Q0|e] eqn:E0; cbn [bind] in H; [|discriminate].
  destruct (m_addall Q0 _) as [Q1|e] eqn:E1; cbn [bind] in H; [|discriminate].
  destruct (m_addall Q1 _) as [Q2|e] eqn:E2; cbn [bind] in H; [|discriminate].
  assert (B0 : boolean_env (fun _ => 0)) by (intros i; left; reflexivity).
  assert (K0 : kd Q0 = KQuboM) by (destruct (m_iadd_eval _ _ _ _ E0 B0) as [_ K]; exact K).
  assert (K1 : kd Q1 = KQuboM) by (destruct (m_addall_eval (fun _ => 0) _ _ _ E1) as [_ K]; [rewrite K0; exact B0| congruence]).
  assert (K2 : kd Q2 = KQuboM) by (destruct (m_addall_eval (fun _ => 0) _ _ _ E2) as [_ K]; [rewrite K1; exact B0| congruence]).
  destruct (m_addall_eval x _ _ _ H) as [A3 _]; [rewrite K2; exact Hx|].
  destruct (m_addall_eval x _ _ _ E2) as [A2 _]; [rewrite K1; exact Hx|].
  destruct (m_addall_eval x _ _ _ E1) as [A1 _]; [rewrite K0; exact Hx|].
  destruct (m_iadd_eval x _ _ _ E0) as [A0 _]; [exact Hx|].
  rewrite A3, A2, A1, A0. cbn [operand_eval tm empty_model eval]. rewrite eval_loads0.
  rewrite !gsum_flat_map.
  assert (Gc : gsum (fun _ : nat * Q => - A) (js_jobs lengths) == - (nQ (length lengths) * A)).
  { rewrite gsum_const. unfold js_jobs. rewrite combine_length, seq_length, Nat.min_id. ring. }
  assert (G1 : gsum (fun a : nat * Q => eval x (js_onehot_items m A a)) (js_jobs lengths)
               == A * js_pen1 m x (js_jobs lengths) - nQ (length lengths) * A).
  { transitivity (gsum (fun p : nat * Q => A * ((1 - s_j m x (fst p)) * (1 - s_j m x (fst p))) + (- A)) (js_jobs lengths)).
    - apply gsum_ext. intros [j len] _. unfold js_onehot_items. rewrite (onehot_part m A x j). cbn [fst]. ring.
    - rewrite gsum_add, gsum_scale, Gc. unfold js_pen1. ring. }
  assert (G2 : gsum (fun a : nat => eval x (js_worker_items m (length lengths) (js_jobs lengths) lg (js_maxM lg M) A a)) (seq 1 (m - 1))
               == A * js_pen2 m (length lengths) (js_jobs lengths) lg (js_maxM lg M) x).
  { transitivity (gsum (fun w => A * (js_res m (length lengths) (js_jobs lengths) lg (js_maxM lg M) x w * js_res m (length lengths) (js_jobs lengths) lg (js_maxM lg M) x w)) (seq 1 (m - 1))).
    - apply gsum_ext. intros w _. apply worker_value, Hx.
    - rewrite gsum_scale, gsum_lsum. unfold js_pen2. reflexivity. }
  etransitivity; [apply Qplus_comp; [apply Qplus_comp; [reflexivity| exact G1]| exact G2]|]. ring.
Qed.

(* ================= ground states ================= *)
(* integer job lengths ls; jobs = [(0, l0); (1, l1); ...] *)
Lemma gsum_jobs (F : nat -> Q -> Q) (ls : list nat) : forall a,
  gsum (fun p : nat * Q => F (fst p) (snd p)) (combine (seq a (length ls)) (map nQ ls))
  == lsum (fun j => F j (nQ (nth (j - a) ls 0%nat))) (seq a (length ls)).
Proof.
  induction ls as [|l ls IH]; intros a; [reflexivity|]. cbn [length seq map combine gsum lsum fst snd].
  rewrite (IH (S a)). replace (a - a)%nat with 0%nat by lia. cbn [nth]. apply Qplus_comp; [reflexivity|].
  apply lsum_ext. intros j Hj. apply in_seq in Hj. replace (j - a)%nat with (S (j - S a)) by lia. reflexivity.
Qed.
Lemma js_jobs_map ls : js_jobs (map nQ ls) = combine (seq 0 (length ls)) (map nQ ls).
Proof. unfold js_jobs. rewrite map_length. reflexivity. Qed.

(* index of the first largest value among f 0 .. f k *)
Fixpoint amax (f : nat -> nat) (k : nat) : nat :=
  match k with O => O | S k' => if (f (amax f k') <? f (S k'))%nat then S k' else amax f k' end.
Lemma amax_le f k : (amax f k <= k)%nat.
Proof. induction k as [|k IH]; simpl; [lia|]. destruct (f (amax f k) <? f (S k))%nat; lia. Qed.
Lemma amax_max f k : forall w, (w <= k)%nat -> (f w <= f (amax f k))%nat.
Proof.
  induction k as [|k IH]; intros w Hw; simpl; [replace w with 0%nat by lia; lia|].
  destruct (Nat.ltb_spec (f (amax f k)) (f (S k))) as [H|H].
  - destruct (Nat.eq_dec w (S k)) as [->|Hne]; [lia|]. specialize (IH w ltac:(lia)). lia.
  - destruct (Nat.eq_dec w (S k)) as [->|Hne]; [lia|]. apply IH. lia.
Qed.
Lemma amax_first f k : amax f k <> 0%nat -> (f 0%nat < f (amax f k))%nat.
Proof.
  induction k as [|k IH]; simpl; [congruence|]. destruct (Nat.ltb_spec (f (amax f k)) (f (S k))) as [H|H]; intros Hne.
  - pose proof (amax_max f k 0%nat ltac:(lia)). lia.
  - apply IH, Hne.
Qed.

(* loads of an assignment pos : job -> worker, as natural numbers *)
Definition loadn (ls : list nat) (pos : nat -> nat) (p : nat) : nat :=
  fold_right (fun j acc => ((if (pos j =? p)%nat then nth j ls 0%nat else 0%nat) + acc)%nat) 0%nat (seq 0 (length ls)).
Definition total (ls : list nat) : nat := fold_right Nat.add 0%nat ls.

Lemma loadn_lsum ls pos p : nQ (loadn ls pos p) == lsum (fun j => nQ (nth j ls 0%nat) * (if (pos j =? p)%nat then 1 else 0)) (seq 0 (length ls)).
Proof.
  unfold loadn. induction (seq 0 (length ls)) as [|j l IH]; [reflexivity|]. cbn [fold_right lsum]. rewrite nQ_add, IH.
  destruct (pos j =? p)%nat; [ring| rewrite nQ0; ring].
Qed.

Section Asg.
  Variables (m : nat) (ls : list nat) (lg : bool) (M : nat) (pos : nat -> nat).
  Hypothesis Hm : (1 <= m)%nat.
  Hypothesis Hpos : forall j, (pos j < m)%nat.
  Definition Dn (w : nat) : nat := (loadn ls pos 0 - loadn ls pos w)%nat.
  Definition asg_env : env := fun l =>
    if (l <? length ls * m)%nat then (if (pos (l / m) =? l mod m)%nat then 1 else 0)
    else let d := (l - length ls * m)%nat in
         if lg then nQ ((Dn (S (d mod (m - 1))) / 2 ^ (d / (m - 1))) mod 2)
         else (if (S (d / (m - 1)) =? Dn (S (d mod (m - 1))))%nat then 1 else 0).

  Lemma asg_bool : boolean_env asg_env.
  Proof.
    intros l. unfold asg_env. destruct (l <? length ls * m)%nat.
    - destruct (pos (l / m) =? l mod m)%nat; [right| left]; reflexivity.
    - cbv zeta. destruct lg.
      + set (r := (Dn (S ((l - length ls * m) mod (m - 1))) / 2 ^ ((l - length ls * m) / (m - 1)))%nat).
        pose proof (Nat.mod_upper_bound r 2 ltac:(lia)) as Hb. destruct (r mod 2)%nat as [|[|k]]; [left| right| lia]; reflexivity.
      + destruct (S ((l - length ls * m) / (m - 1)) =? Dn (S ((l - length ls * m) mod (m - 1))))%nat; [right| left]; reflexivity.
  Qed.

  Lemma asg_X j w : (j < length ls)%nat -> (w < m)%nat -> asg_env (X m j w) = if (pos j =? w)%nat then 1 else 0.
  Proof.
    intros Hj Hw. unfold asg_env, X, js_x.
    assert (Hlt : (j * m + w < length ls * m)%nat) by nia.
    destruct (Nat.ltb_spec (j * m + w) (length ls * m)); [|lia].
    rewrite (Nat.add_comm (j * m) w), Nat.div_add, Nat.mod_add by lia.
    rewrite (Nat.div_small w m Hw), (Nat.mod_small w m Hw). reflexivity.
  Qed.

  Lemma asg_Y n w : (1 <= w)%nat -> (w < m)%nat ->
    asg_env (Yl m (length ls) n w) = if lg then nQ ((Dn w / 2 ^ n) mod 2) else (if (S n =? Dn w)%nat then 1 else 0).
  Proof.
    intros H1 Hw. unfold asg_env, Yl, js_y.
    destruct (Nat.ltb_spec (length ls * m + n * (m - 1) + w - 1) (length ls * m)) as [Hc|Hc]; [exfalso; revert Hc; set (K := (length ls * m)%nat); set (R := (n * (m - 1))%nat); lia|]. cbv zeta.
    replace (length ls * m + n * (m - 1) + w - 1 - length ls * m)%nat with ((w - 1) + n * (m - 1))%nat by (set (K := (length ls * m)%nat); set (R := (n * (m - 1))%nat); lia).
    rewrite Nat.div_add, Nat.mod_add by lia.
    rewrite (Nat.div_small (w - 1) (m - 1)), (Nat.mod_small (w - 1) (m - 1)) by lia.
    replace (S (w - 1)) with w by lia. reflexivity.
  Qed.

  Lemma asg_s j : (j < length ls)%nat -> s_j m asg_env j == 1.
  Proof.
    intros Hj. unfold s_j.
    rewrite (lsum_ext _ (fun w => if (w =? pos j)%nat then 1 else 0) (seq 0 m)).
    - apply (lsum_delta (fun _ => 1) (pos j) (seq 0 m) (seq_NoDup m 0)). apply in_seq. pose proof (Hpos j). lia.
    - intros w Hw. apply in_seq in Hw. rewrite (asg_X j w Hj ltac:(lia)), Nat.eqb_sym. reflexivity.
  Qed.

  Lemma asg_L w : (w < m)%nat -> L_w m (js_jobs (map nQ ls)) asg_env w == nQ (loadn ls pos w).
  Proof.
    intros Hw. unfold L_w. rewrite js_jobs_map.
    rewrite (gsum_ext _ (fun p : nat * Q => (fun j len => len * asg_env (X m j w)) (fst p) (snd p))) by (intros [j len] _; reflexivity).
    rewrite (gsum_jobs (fun j len => len * asg_env (X m j w)) ls 0), loadn_lsum.
    apply lsum_ext. intros j Hj. apply in_seq in Hj. rewrite Nat.sub_0_r, (asg_X j w ltac:(lia) Hw). reflexivity.
  Qed.

  Lemma asg_Yw w : (1 <= w)%nat -> (w < m)%nat -> (Dn w <= M)%nat -> Y_w m (length ls) lg (js_maxM lg M) asg_env w == nQ (Dn w).
  Proof.
    intros H1 Hw HD. unfold Y_w.
    transitivity (lsum (fun n => cf lg n * (if lg then nQ ((Dn w / 2 ^ n) mod 2) else (if (S n =? Dn w)%nat then 1 else 0))) (seq 0 (js_maxM lg M))).
    { apply lsum_ext. intros n _. rewrite (asg_Y n w H1 Hw). reflexivity. }
    unfold js_maxM, cf. destruct lg.
    - rewrite bits_sum, Nat.mod_small; [reflexivity|]. pose proof (log2_bound M M (Nat.le_refl M)). unfold sc_logM. lia.
    - transitivity (lsum (fun n => if (S n =? Dn w)%nat then nQ (S n) else 0) (seq 0 M)).
      { apply lsum_ext. intros n _. destruct (S n =? Dn w)%nat; ring. }
      destruct (Dn w) as [|d] eqn:ED.
      + transitivity (lsum (fun _ : nat => 0) (seq 0 M)); [apply lsum_ext; intros n _; reflexivity|]. rewrite lsum_const, nQ0. ring.
      + transitivity (lsum (fun n => if (n =? d)%nat then nQ (S n) else 0) (seq 0 M)); [apply lsum_ext; intros n _; reflexivity|].
        apply (lsum_delta (fun n => nQ (S n)) d (seq 0 M) (seq_NoDup M 0)). apply in_seq. lia.
  Qed.
End Asg.

Lemma gsum_zero {T} (h : T -> Q) l : (forall a, In a l -> h a == 0) -> gsum h l == 0.
Proof. induction l as [|a l IH]; simpl; intros H; [reflexivity|]. rewrite (H a (or_introl eq_refl)), IH; [ring| intros b Hb; apply H; right; exact Hb]. Qed.
Lemma lsum_zero (h : nat -> Q) l : (forall a, In a l -> h a == 0) -> lsum h l == 0.
Proof. intros H. rewrite <- gsum_lsum. apply gsum_zero, H. Qed.

(* a valid assignment with position 0 the most loaded one, completed with the exact slack: energy = B * load of position 0 *)
Lemma asg_energy m ls lg M A B Qf pos : js_to_qubo (map nQ ls) m lg M A B = Ok Qf -> (1 <= m)%nat ->
  (forall j, (pos j < m)%nat) -> (forall w, (w < m)%nat -> (loadn ls pos w <= loadn ls pos 0)%nat) -> (loadn ls pos 0 <= M)%nat ->
  boolean_env (asg_env m ls lg pos) /\ eval (asg_env m ls lg pos) (tm Qf) == B * nQ (loadn ls pos 0).
Proof.
  intros H Hm Hpos Hmax HM. pose proof (asg_bool m ls lg pos Hm) as Hb. split; [exact Hb|].
  rewrite (js_value _ _ _ _ _ _ _ H _ Hb). cbv zeta. rewrite map_length.
  rewrite (asg_L m ls lg pos Hm 0%nat ltac:(lia)).
  assert (P1 : js_pen1 m (asg_env m ls lg pos) (js_jobs (map nQ ls)) == 0).
  { unfold js_pen1. apply gsum_zero. intros [j len] Hin. cbn [fst]. rewrite js_jobs_map in Hin. apply in_combine_l in Hin. apply in_seq in Hin.
    rewrite (asg_s m ls lg pos Hm Hpos j ltac:(lia)). ring. }
  assert (P2 : js_pen2 m (length ls) (js_jobs (map nQ ls)) lg (js_maxM lg M) (asg_env m ls lg pos) == 0).
  { unfold js_pen2. apply lsum_zero. intros w Hw. apply in_seq in Hw. unfold js_res.
    pose proof (Hmax w ltac:(lia)) as Hle.
    rewrite (asg_Yw m ls lg M pos Hm w ltac:(lia) ltac:(lia) ltac:(unfold Dn; lia)).
    rewrite (asg_L m ls lg pos Hm w ltac:(lia)), (asg_L m ls lg pos Hm 0%nat ltac:(lia)).
    assert (E : nQ (loadn ls pos 0) == nQ (Dn ls pos w) + nQ (loadn ls pos w)) by (rewrite <- nQ_add; unfold Dn; replace (loadn ls pos 0 - loadn ls pos w + loadn ls pos w)%nat with (loadn ls pos 0) by lia; reflexivity).
    rewrite E. ring. }
  rewrite P1, P2. ring.
Qed.

(* relabel the workers so that a most loaded one sits at position 0 *)
Definition swap0 (r p : nat) : nat := if (p =? 0)%nat then r else if (p =? r)%nat then 0%nat else p.
Lemma swap0_invol r p : swap0 r (swap0 r p) = p.
Proof.
  unfold swap0. destruct (Nat.eqb_spec p 0) as [->|H0].
  - destruct (Nat.eqb_spec r 0) as [->|Hr]; [reflexivity|]. rewrite Nat.eqb_refl. reflexivity.
  - destruct (Nat.eqb_spec p r) as [->|Hr]; [reflexivity|]. destruct (Nat.eqb_spec p 0); [congruence|]. destruct (Nat.eqb_spec p r); [congruence| reflexivity].
Qed.
Lemma swap0_lt r p m : (r < m)%nat -> (p < m)%nat -> (swap0 r p < m)%nat.
Proof. intros Hr Hp. unfold swap0. destruct (p =? 0)%nat; [exact Hr|]. destruct (p =? r)%nat; lia. Qed.

Lemma loadn_ext ls pos pos' p p' : (forall j, (pos j =? p)%nat = (pos' j =? p')%nat) -> loadn ls pos p = loadn ls pos' p'.
Proof. intros H. unfold loadn. induction (seq 0 (length ls)) as [|j l IH]; [reflexivity|]. cbn [fold_right]. rewrite H, IH. reflexivity. Qed.
Lemma loadn_swap ls a r p : loadn ls (fun j => swap0 r (a j)) p = loadn ls a (swap0 r p).
Proof.
  apply loadn_ext. intros j. destruct (Nat.eqb_spec (swap0 r (a j)) p) as [E|E]; destruct (Nat.eqb_spec (a j) (swap0 r p)) as [E'|E']; try reflexivity.
  - exfalso. apply E'. rewrite <- E, swap0_invol. reflexivity.
  - exfalso. apply E. rewrite E', swap0_invol. reflexivity.
Qed.

Lemma fr_ext (f g : nat -> nat) L : (forall j, In j L -> f j = g j) ->
  fold_right (fun j acc => (f j + acc)%nat) 0%nat L = fold_right (fun j acc => (g j + acc)%nat) 0%nat L.
Proof. induction L as [|j L IH]; intros H; [reflexivity|]. cbn [fold_right]. rewrite (H j (or_introl eq_refl)), IH; [reflexivity| intros j' Hj'; apply H; right; exact Hj']. Qed.
Lemma fr_le (f g : nat -> nat) L : (forall j, In j L -> (f j <= g j)%nat) ->
  (fold_right (fun j acc => (f j + acc)%nat) 0%nat L <= fold_right (fun j acc => (g j + acc)%nat) 0%nat L)%nat.
Proof.
  induction L as [|j L IH]; intros H; [simpl; lia|]. cbn [fold_right]. pose proof (H j (or_introl eq_refl)).
  assert (fold_right (fun j0 acc => (f j0 + acc)%nat) 0%nat L <= fold_right (fun j0 acc => (g j0 + acc)%nat) 0%nat L)%nat by (apply IH; intros j' Hj'; apply H; right; exact Hj').
  lia.
Qed.
Lemma sum_nth (l : list nat) : forall a, fold_right (fun j acc => (nth (j - a) l 0%nat + acc)%nat) 0%nat (seq a (length l)) = total l.
Proof.
  induction l as [|x l IH]; intros a; [reflexivity|]. change (total (x :: l)) with (x + total l)%nat. cbn [length seq fold_right]. replace (a - a)%nat with 0%nat by lia. cbn [nth]. f_equal.
  rewrite <- (IH (S a)). apply fr_ext. intros j Hj. apply in_seq in Hj. replace (j - a)%nat with (S (j - S a)) by lia. reflexivity.
Qed.
Lemma loadn_le_total ls pos p : (loadn ls pos p <= total ls)%nat.
Proof.
  unfold loadn. rewrite <- (sum_nth ls 0%nat).
  apply (fr_le (fun j => if (pos j =? p)%nat then nth j ls 0%nat else 0%nat) (fun j => nth (j - 0) ls 0%nat)).
  intros j _. rewrite Nat.sub_0_r. destruct (pos j =? p)%nat; lia.
Qed.

Definition makespan (m : nat) (ls : list nat) (a : nat -> nat) : nat := loadn ls a (amax (loadn ls a) (m - 1)).

Lemma makespan_energy m ls lg M A B Qf a : js_to_qubo (map nQ ls) m lg M A B = Ok Qf -> (1 <= m)%nat ->
  (forall j, (a j < m)%nat) -> (total ls <= M)%nat ->
  exists xs, boolean_env xs /\ eval xs (tm Qf) == B * nQ (makespan m ls a).
Proof.
  intros H Hm Ha HM. set (r := amax (loadn ls a) (m - 1)).
  assert (Hr : (r < m)%nat) by (pose proof (amax_le (loadn ls a) (m - 1)); unfold r; lia).
  set (pos := fun j => swap0 r (a j)).
  destruct (asg_energy m ls lg M A B Qf pos H Hm) as [Hb He].
  - intros j. apply swap0_lt; [exact Hr| apply Ha].
  - intros w Hw. unfold pos. rewrite !loadn_swap. unfold swap0 at 2. cbn [Nat.eqb].
    apply (amax_max (loadn ls a) (m - 1)). pose proof (swap0_lt r w m Hr Hw). lia.
  - pose proof (loadn_le_total ls pos 0%nat). lia.
  - exists (asg_env m ls lg pos). split; [exact Hb|]. rewrite He. unfold pos. rewrite loadn_swap. unfold swap0. cbn [Nat.eqb]. reflexivity.
Qed.

Lemma nQ_le a b : (a <= b)%nat -> nQ a <= nQ b.
Proof. intros H. unfold nQ. rewrite <- Zle_Qle. lia. Qed.

(* ---- from an arbitrary assignment of the variables to an assignment of the jobs ---- *)
Definition chosenb (m : nat) (x : env) (j w : nat) : bool := negb (qzero (x (X m j w))).
Definition first_w (m : nat) (x : env) (j : nat) : nat := match filter (chosenb m x j) (seq 0 m) with [] => 0%nat | w :: _ => w end.
Definition unb (m : nat) (x : env) (j : nat) : bool := match filter (chosenb m x j) (seq 0 m) with [] => true | _ => false end.

Lemma chosenb_true m x j w : boolean_env x -> (chosenb m x j w = true <-> x (X m j w) == 1).
Proof.
  intros Hx. unfold chosenb. destruct (Hx (X m j w)) as [E|E].
  - assert (Z : qzero (x (X m j w)) = true) by (apply qzero_spec; exact E). rewrite Z. simpl. split; [discriminate| intros E1; rewrite E in E1; discriminate].
  - assert (Z : qzero (x (X m j w)) = false) by (destruct (qzero _) eqn:Ez; [apply qzero_spec in Ez; rewrite E in Ez; discriminate| reflexivity]).
    rewrite Z. simpl. split; [intros _; exact E| reflexivity].
Qed.
Lemma first_w_lt m x j : (1 <= m)%nat -> (first_w m x j < m)%nat.
Proof.
  intros Hm. unfold first_w. destruct (filter (chosenb m x j) (seq 0 m)) as [|w r] eqn:E; [lia|].
  assert (In w (filter (chosenb m x j) (seq 0 m))) by (rewrite E; left; reflexivity). apply filter_In in H. destruct H as [H _]. apply in_seq in H. lia.
Qed.
Lemma first_w_chosen m x j w : first_w m x j = w -> unb m x j = false -> chosenb m x j w = true.
Proof.
  unfold first_w, unb. destruct (filter (chosenb m x j) (seq 0 m)) as [|w0 r] eqn:E; [discriminate|]. intros <- _.
  assert (In w0 (filter (chosenb m x j) (seq 0 m))) by (rewrite E; left; reflexivity). apply filter_In in H. apply H.
Qed.
(* a job that worker 0 has stays with worker 0 *)
Lemma first_w_zero m x j : (1 <= m)%nat -> chosenb m x j 0%nat = true -> first_w m x j = 0%nat.
Proof.
  intros Hm Hc. unfold first_w. destruct m as [|m']; [lia|]. cbn [seq filter]. rewrite Hc. reflexivity.
Qed.
Lemma unb_s m x j : boolean_env x -> unb m x j = true -> s_j m x j == 0.
Proof.
  intros Hx Hu. unfold s_j. apply lsum_zero. intros w Hw. unfold unb in Hu.
  destruct (filter (chosenb m x j) (seq 0 m)) as [|w0 r] eqn:E; [|discriminate].
  destruct (Hx (X m j w)) as [Z|Z]; [exact Z|]. exfalso.
  assert (In w (filter (chosenb m x j) (seq 0 m))) by (apply filter_In; split; [exact Hw| apply chosenb_true; assumption]). rewrite E in H. destruct H.
Qed.

Section Derive.
  Variables (m : nat) (ls : list nat) (lg : bool) (M Lmax : nat) (A B : Q) (x : env).
  Hypothesis Hm : (1 <= m)%nat.
  Hypothesis Hx : boolean_env x.
  Hypothesis HL : forall l, In l ls -> (l <= Lmax)%nat.
  Let N := length ls.
  Let jobs := js_jobs (map nQ ls).
  Let ax := first_w m x.
  Let lenQ (j : nat) : Q := nQ (nth j ls 0%nat).

  Lemma L_seq w : L_w m jobs x w == lsum (fun j => lenQ j * x (X m j w)) (seq 0 N).
  Proof.
    unfold L_w, jobs. rewrite js_jobs_map.
    transitivity (gsum (fun p : nat * Q => (fun j len => len * x (X m j w)) (fst p) (snd p)) (combine (seq 0 (length ls)) (map nQ ls))).
    { apply gsum_ext. intros [j len] _. reflexivity. }
    rewrite (gsum_jobs (fun j len => len * x (X m j w)) ls 0). apply lsum_ext. intros j _. rewrite Nat.sub_0_r. reflexivity.
  Qed.
  Lemma P1_seq : js_pen1 m x jobs == lsum (fun j => (1 - s_j m x j) * (1 - s_j m x j)) (seq 0 N).
  Proof.
    unfold js_pen1, jobs. rewrite js_jobs_map.
    transitivity (gsum (fun p : nat * Q => (fun j (_ : Q) => (1 - s_j m x j) * (1 - s_j m x j)) (fst p) (snd p)) (combine (seq 0 (length ls)) (map nQ ls))).
    { apply gsum_ext. intros [j len] _. reflexivity. }
    rewrite (gsum_jobs (fun j _ => (1 - s_j m x j) * (1 - s_j m x j)) ls 0). apply lsum_ext. intros j _. reflexivity.
  Qed.
  Lemma lenQ_bounds j : 0 <= lenQ j /\ lenQ j <= nQ Lmax.
  Proof.
    unfold lenQ. split; [apply nQ_nonneg|]. apply nQ_le. destruct (Nat.lt_ge_cases j (length ls)) as [Hj|Hj].
    - apply HL, nth_In, Hj.
    - rewrite nth_overflow by exact Hj. lia.
  Qed.

  Definition Uq : Q := lsum (fun j => lenQ j * (if unb m x j then 1 else 0)) (seq 0 N).
  Definition cun : Q := lsum (fun j => if unb m x j then 1 else 0) (seq 0 N).

  (* loads of the derived assignment against the weighted sums of x *)
  Lemma load0_le : nQ (loadn ls ax 0) <= L_w m jobs x 0%nat + Uq.
  Proof.
    rewrite loadn_lsum, L_seq. unfold Uq. rewrite <- lsum_add. apply lsum_le. intros j _. fold (lenQ j).
    destruct (lenQ_bounds j) as [L0 _]. unfold ax.
    destruct (Nat.eqb_spec (first_w m x j) 0) as [E|E]; [|destruct (unb m x j); destruct (Hx (X m j 0%nat)) as [Z|Z]; rewrite Z; nra].
    destruct (unb m x j) eqn:Eu; [destruct (Hx (X m j 0%nat)) as [Z|Z]; rewrite Z; nra|].
    pose proof (first_w_chosen m x j 0%nat E Eu) as Hc. apply (chosenb_true m x j 0%nat Hx) in Hc. rewrite Hc. nra.
  Qed.
  Lemma load0_ge : L_w m jobs x 0%nat <= nQ (loadn ls ax 0).
  Proof.
    rewrite loadn_lsum, L_seq. apply lsum_le. intros j _. fold (lenQ j). destruct (lenQ_bounds j) as [L0 _]. unfold ax.
    destruct (Hx (X m j 0%nat)) as [Z|Z]; rewrite Z.
    - destruct (first_w m x j =? 0)%nat; nra.
    - rewrite (first_w_zero m x j Hm) by (apply chosenb_true; assumption). cbn [Nat.eqb]. nra.
  Qed.
  Lemma loadw_le w : (1 <= w)%nat -> nQ (loadn ls ax w) <= L_w m jobs x w.
  Proof.
    intros Hw. rewrite loadn_lsum, L_seq. apply lsum_le. intros j _. fold (lenQ j). destruct (lenQ_bounds j) as [L0 _]. unfold ax.
    destruct (Nat.eqb_spec (first_w m x j) w) as [E|E]; [|destruct (Hx (X m j w)) as [Z|Z]; rewrite Z; nra].
    assert (Eu : unb m x j = false).
    { unfold unb. unfold first_w in E. destruct (filter (chosenb m x j) (seq 0 m)); [lia| reflexivity]. }
    pose proof (first_w_chosen m x j w E Eu) as Hc. apply (chosenb_true m x j w Hx) in Hc. rewrite Hc. nra.
  Qed.
  Lemma Uq_le : Uq <= nQ Lmax * cun.
  Proof.
    unfold Uq, cun. rewrite <- lsum_scale. apply lsum_le. intros j _. destruct (lenQ_bounds j) as [L0 L1]. destruct (unb m x j); nra.
  Qed.
  Lemma cun_le_P1 : cun <= js_pen1 m x jobs.
  Proof.
    rewrite P1_seq. unfold cun. apply lsum_le. intros j _. destruct (unb m x j) eqn:Eu.
    - rewrite (unb_s m x j Hx Eu). lra.
    - apply sq_nonneg.
  Qed.
  Lemma cun_nonneg : 0 <= cun.
  Proof. unfold cun. apply lsum_nonneg. intros j _. destruct (unb m x j); lra. Qed.
End Derive.

Lemma Yw_nonneg m N lg maxM x w : boolean_env x -> 0 <= Y_w m N lg maxM x w.
Proof.
  intros Hx. unfold Y_w. apply lsum_nonneg. intros n _.
  assert (0 <= cf lg n) by (unfold cf; destruct lg; [pose proof (PenaltyArith.pow2_pos n); lra| apply nQ_nonneg]).
  destruct (Hx (Yl m N n w)) as [E|E]; rewrite E; nra.
Qed.
Lemma lsum_ge_term' (h : nat -> Q) j l : (forall a, In a l -> 0 <= h a) -> In j l -> h j <= lsum h l.
Proof. apply lsum_ge_term. Qed.

Theorem js_ground m ls lg M Lmax A B Qf x : js_to_qubo (map nQ ls) m lg M A B = Ok Qf ->
  (1 <= m)%nat -> (forall l, In l ls -> (l <= Lmax)%nat) -> (1 <= Lmax)%nat -> (total ls <= M)%nat ->
  0 < B -> B * nQ Lmax < A ->
  boolean_env x -> (forall y, boolean_env y -> eval x (tm Qf) <= eval y (tm Qf)) ->
  let jobs := js_jobs (map nQ ls) in
  (forall j, (j < length ls)%nat -> s_j m x j == 1)
  /\ (forall w, (1 <= w < m)%nat -> js_res m (length ls) jobs lg (js_maxM lg M) x w == 0)
  /\ eval x (tm Qf) == B * L_w m jobs x 0%nat
  /\ forall a, (forall j, (a j < m)%nat) -> L_w m jobs x 0%nat <= nQ (makespan m ls a).
Proof.
  intros H Hm HL HL1 HM HB HA Hx Hmin jobs.
  pose proof (js_value _ _ _ _ _ _ _ H x Hx) as Ex. cbv zeta in Ex. rewrite map_length in Ex. fold jobs in Ex.
  set (P1 := js_pen1 m x jobs) in *. set (P2 := js_pen2 m (length ls) jobs lg (js_maxM lg M) x) in *. set (L0 := L_w m jobs x 0%nat) in *.
  assert (HA0 : 0 < A) by (pose proof (nQ_ge1 Lmax HL1); nra).
  assert (HAB : B < A) by (pose proof (nQ_ge1 Lmax HL1); nra).
  assert (P1n : 0 <= P1) by (unfold P1, js_pen1; clear; induction jobs as [|p l IH]; simpl; [lra| pose proof (sq_nonneg (1 - s_j m x (fst p))); lra]).
  assert (P2terms : forall w, In w (seq 1 (m - 1)) -> 0 <= js_res m (length ls) jobs lg (js_maxM lg M) x w * js_res m (length ls) jobs lg (js_maxM lg M) x w)
    by (intros w _; apply sq_nonneg).
  assert (P2n : 0 <= P2) by (apply lsum_nonneg; exact P2terms).
  (* the assignment read off x, relabelled *)
  set (ax := first_w m x).
  assert (Hax : forall j, (ax j < m)%nat) by (intros j; apply first_w_lt, Hm).
  destruct (makespan_energy m ls lg M A B Qf ax H Hm Hax HM) as (xs & Hxs & Exs).
  pose proof (Hmin xs Hxs) as Mn. rewrite Ex, Exs in Mn.
  set (r := amax (loadn ls ax) (m - 1)) in *. unfold makespan in Mn. fold r in Mn.
  pose proof (load0_le m ls Lmax x Hm Hx HL) as F1. pose proof (load0_ge m ls Lmax x Hm Hx HL) as F4.
  pose proof (Uq_le m ls Lmax x Hm HL) as F3. pose proof (cun_le_P1 m ls x Hx) as F5. pose proof (cun_nonneg m ls x) as F6.
  fold jobs in F1, F4, F5. fold L0 in F1, F4. fold P1 in F5. fold ax in F1, F4.
  set (U := Uq m ls x) in *. set (cu := cun m ls x) in *.
  pose proof (nQ_nonneg Lmax) as LM0.
  assert (Hr0 : r = 0%nat).
  { destruct (Nat.eq_dec r 0) as [E|Hne]; [exact E|]. exfalso.
    pose proof (amax_first (loadn ls ax) (m - 1) Hne) as Hlt. fold r in Hlt.
    pose proof (amax_le (loadn ls ax) (m - 1)) as Hrm. fold r in Hrm.
    pose proof (loadw_le m ls Lmax x Hm Hx HL r ltac:(lia)) as F2. fold jobs ax in F2.
    assert (I1 : nQ (loadn ls ax 0) + 1 <= nQ (loadn ls ax r)) by (rewrite <- nQ1, <- nQ_add; apply nQ_le; lia).
    set (Lr := L_w m jobs x r) in *. set (d := Lr - L0).
    assert (Hd : 1 <= d) by (unfold d; lra).
    pose proof (Yw_nonneg m (length ls) lg (js_maxM lg M) x r Hx) as Y0.
    assert (Rr : d <= js_res m (length ls) jobs lg (js_maxM lg M) x r) by (unfold js_res; fold Lr L0; unfold d; lra).
    assert (Rsq : d <= js_res m (length ls) jobs lg (js_maxM lg M) x r * js_res m (length ls) jobs lg (js_maxM lg M) x r) by nra.
    assert (P2r : js_res m (length ls) jobs lg (js_maxM lg M) x r * js_res m (length ls) jobs lg (js_maxM lg M) x r <= P2).
    { apply (lsum_ge_term' (fun w => js_res m (length ls) jobs lg (js_maxM lg M) x w * js_res m (length ls) jobs lg (js_maxM lg M) x w) r (seq 1 (m - 1)) P2terms).
      apply in_seq. lia. }
    assert (B * nQ (loadn ls ax r) <= B * L0 + B * d) by (unfold d; nra).
    assert (B * d < A * d) by nra. nra. }
  rewrite Hr0 in Mn.
  (* worker 0 is the most loaded of the derived assignment: nothing was unassigned and no penalty is left *)
  assert (K : (A - B * nQ Lmax) * cu + A * P2 <= 0) by nra.
  assert (Hcu : cu == 0) by nra.
  assert (HP2 : P2 == 0) by nra.
  assert (HU : U <= 0) by nra.
  assert (HP1 : P1 == 0) by nra.
  split.
  { intros j Hj.
    assert (PS : lsum (fun j0 => (1 - s_j m x j0) * (1 - s_j m x j0)) (seq 0 (length ls)) == 0) by (rewrite <- (P1_seq m ls x); exact HP1).
    pose proof (lsum_zero_each (fun j0 => (1 - s_j m x j0) * (1 - s_j m x j0)) (seq 0 (length ls)) ltac:(intros; apply sq_nonneg) PS j ltac:(apply in_seq; lia)) as Z.
    cbv beta in Z. nra. }
  split.
  { intros w Hw. pose proof (lsum_zero_each _ (seq 1 (m - 1)) P2terms HP2 w ltac:(apply in_seq; lia)) as Z. cbv beta in Z. nra. }
  split; [rewrite Ex, HP1, HP2; ring|].
  intros a Ha. destruct (makespan_energy m ls lg M A B Qf a H Hm Ha HM) as (xa & Hxa & Exa).
  pose proof (Hmin xa Hxa) as Ma. rewrite Ex, Exa, HP1, HP2 in Ma. nra.
Qed.

(* the validity test: every job is given to exactly one worker *)
Lemma js_valid_iff N m (xb : label -> bool) :
  js_valid N m xb = true <-> forall j, (j < N)%nat -> length (filter (fun w => xb (js_x m j w)) (seq 0 m)) = 1%nat.
Proof.
  unfold js_valid. rewrite forallb_forall. split.
  - intros H j Hj. apply Nat.eqb_eq, H, in_seq. lia.
  - intros H j Hj. apply in_seq in Hj. apply Nat.eqb_eq, H. lia.
Qed.
