(* C06: the sixteen logic constraint methods penalise exactly the violating assignments *)
From QV.Model Require Import Base Matrix Arith Expr Extrema Sat PCBO Logic.
From QV.Proofs Require Import BaseProofs KeyProofs ArithProofs ExprProofs ExtremaProofs InvProofs RefreshProofs ConvertProofs
     SatProofs PenaltyArith PCBOProofs.
From Coq Require Import Lia Lqa Qfield.
Open Scope Q_scope.

(* ---- the a == b*c shortcut never fires on a polynomial that is non-negative everywhere and whose
        variable count is exact (three distinct labels) ---- *)
Definition point (ones : list label) : env := fun l => if mem l ones then 1 else 0.
Lemma point_bool ones : boolean_env (point ones).
Proof. intros l. unfold point. destruct (mem l ones); [right|left]; reflexivity. Qed.

Lemma m_create_exact k t P : m_create k t = Ok P -> k <> KDict -> wf k t -> Exact P /\ Inv P /\ kd P = k.
Proof.
  intros H Hk [ND CN]. unfold m_create in H.
  destruct (m_addall_exact t (empty_model k) P) as [HE K]; [exact Hk| apply Exact_empty| | exact H|].
  - simpl. split; [exact ND|]. split; [intros k0 _ []| exact CN].
  - split; [exact HE|]. split; [eapply m_addall_Inv; [apply Inv_empty| exact H]| exact K].
Qed.

Lemma special_eq_none_of_nonneg m P lam r : special_eq m P lam = Ok r ->
  Exact P -> Inv P -> kd P = KPubo -> wf KPubo (tm P) -> (forall x, boolean_env x -> 0 <= eval x (tm P)) -> r = None.
Proof.
  intros H HE HI HK [_ Hnz] Hnn. unfold special_eq in H.
  destruct (tm P) as [|[k0 v0] [|[k1 v1] [|? ?]]] eqn:ET; try (injection H as <-; reflexivity).
  destruct (qeq0 _ && Nat.eqb (num_vars P) 3 && Qeq_bool v0 (- v1)) eqn:Ec; [|injection H as <-; reflexivity].
  apply andb_true_iff in Ec. destruct Ec as [Ec Ev]. apply andb_true_iff in Ec. destruct Ec as [_ En].
  apply Nat.eqb_eq in En. apply Qeq_bool_iff in Ev.
  assert (Hv0 : ~ v0 == 0) by (apply (Hnz k0 v0); left; reflexivity).
  assert (HkP : kd P <> KDict) by (rewrite HK; discriminate).
  destruct (HE HkP) as [EV _]. destruct HI as [BI _]. destruct (BI HkP) as (NDv & _ & _).
  (* the three reported variables are among the labels of the two keys *)
  assert (Hsub : forall i, In i (vars_c P) -> In i (k0 ++ k1)).
  { intros i Hi. destruct (EV i Hi) as (k & v & Hin & Hik). rewrite ET in Hin.
    destruct Hin as [[= <- <-]|[[= <- <-]|[]]]; apply in_or_app; [left|right]; exact Hik. }
  destruct k0 as [|a0 [|b0 [|? ?]]], k1 as [|a1 [|b1 [|? ?]]]; try (injection H as <-; reflexivity); exfalso.
  - (* v0 * a0 - v0 * a1 * b1 : three distinct labels *)
    assert (Hlen : (length (vars_c P) <= length [a0; a1; b1])%nat) by (apply NoDup_incl_length; [exact NDv| exact Hsub]).
    assert (Hd : a0 <> a1 /\ a0 <> b1).
    { unfold num_vars in En. split; intros ->.
      - assert ((length (vars_c P) <= length [a1; b1])%nat); [|simpl in *; clear - En H0; lia].
        apply NoDup_incl_length; [exact NDv|]. intros i Hi. specialize (Hsub i Hi). simpl in *. tauto.
      - assert ((length (vars_c P) <= length [a1; b1])%nat); [|simpl in *; clear - En H0; lia].
        apply NoDup_incl_length; [exact NDv|]. intros i Hi. specialize (Hsub i Hi). simpl in *. tauto. }
    destruct Hd as [D1 D2].
    pose proof (Hnn (point [a0]) (point_bool _)) as H1. pose proof (Hnn (point [a1; b1]) (point_bool _)) as H2.
    simpl in H1, H2. unfold point in H1, H2. simpl in H1, H2. rewrite ?Nat.eqb_refl in H1. rewrite ?Nat.eqb_refl in H2.
    assert ((a1 =? a0)%nat = false) as Ea by (apply Nat.eqb_neq; congruence).
    assert ((b1 =? a0)%nat = false) as Eb by (apply Nat.eqb_neq; congruence).
    assert ((a0 =? a1)%nat = false) as Ea' by (apply Nat.eqb_neq; congruence).
    assert ((a0 =? b1)%nat = false) as Eb' by (apply Nat.eqb_neq; congruence).
    rewrite ?Ea, ?Eb, ?Ea', ?Eb' in H1. rewrite ?Ea, ?Eb, ?Ea', ?Eb' in H2. simpl in H1, H2. rewrite ?orb_true_r in H2. simpl in H2.
    assert (v0 <= 0 /\ 0 <= v0); [|apply Hv0; lra].
    destruct ((b1 =? a1)%nat); simpl in *; lra.
  - assert (Hd : a1 <> a0 /\ a1 <> b0).
    { unfold num_vars in En. split; intros ->.
      - assert ((length (vars_c P) <= length [a0; b0])%nat); [|simpl in *; clear - En H0; lia].
        apply NoDup_incl_length; [exact NDv|]. intros i Hi. specialize (Hsub i Hi). simpl in *. tauto.
      - assert ((length (vars_c P) <= length [a0; b0])%nat); [|simpl in *; clear - En H0; lia].
        apply NoDup_incl_length; [exact NDv|]. intros i Hi. specialize (Hsub i Hi). simpl in *. tauto. }
    destruct Hd as [D1 D2].
    pose proof (Hnn (point [a1]) (point_bool _)) as H1. pose proof (Hnn (point [a0; b0]) (point_bool _)) as H2.
    simpl in H1, H2. unfold point in H1, H2. simpl in H1, H2. rewrite ?Nat.eqb_refl in H1. rewrite ?Nat.eqb_refl in H2.
    assert ((a0 =? a1)%nat = false) as Ea by (apply Nat.eqb_neq; congruence).
    assert ((b0 =? a1)%nat = false) as Eb by (apply Nat.eqb_neq; congruence).
    assert ((a1 =? a0)%nat = false) as Ea' by (apply Nat.eqb_neq; congruence).
    assert ((a1 =? b0)%nat = false) as Eb' by (apply Nat.eqb_neq; congruence).
    rewrite ?Ea, ?Eb, ?Ea', ?Eb' in H1. rewrite ?Ea, ?Eb, ?Ea', ?Eb' in H2. simpl in H1, H2. rewrite ?orb_true_r in H2. simpl in H2.
    assert (v0 <= 0 /\ 0 <= v0); [|apply Hv0; lra].
    destruct ((b0 =? a0)%nat); simpl in *; lra.
Qed.

Lemma wf_to_pubo k t : bkind k -> wf k t -> wf KPubo t.
Proof.
  intros [Hs Hk] [ND CN]. split; [exact ND|]. intros key v Hin. destruct (CN key v Hin) as [Hsq Hv]. split; [|exact Hv].
  unfold squash in *. destruct k; simpl in *; try discriminate; try congruence;
    try (destruct (2 <? _)%nat; [discriminate|]); injection Hsq as Hsq; rewrite Hsq; reflexivity.
Qed.

Lemma core_min_zero_gen m P2 lam h tmp w t : eq_zero_core m P2 lam (Some 0, Some h) = Ok (tmp, w, t) -> 0 < h ->
  bkind (kd m) -> bkind (kd P2) -> step_ok m tmp lam (fun x => eval x (tm P2)) /\ frame m tmp.
Proof.
  intros H Hh Hk HP. unfold eq_zero_core in H. rewrite get_bounds_given in H.
  assert (qeq0 h = false) as Eh.
  { destruct (qeq0 h) eqn:E; [apply qeq0_spec in E; lra| reflexivity]. }
  change (qeq0 0) with true in H. rewrite Eh in H. change (qgt0 0) with false in H. cbn [andb] in H.
  pose proof (qlt0_spec h) as Hl. destruct (qlt0 h); [lra|].
  destruct (ev (lamP lam P2)) as [X|] eqn:EX; cbn [bind] in H; [|discriminate].
  destruct (iadd_m m X) as [tmp'|] eqn:Et; cbn [bind] in H; [|discriminate]. injection H as <- _ _.
  apply (lamP_step _ _ _ _ _ EX Et Hk HP).
Qed.


Lemma ev_kind (Q0 : kind -> Prop) e X : ev e = Ok X -> leaves Q0 e -> Q0 (kd X).
Proof.
  unfold ev. intros H Hl. destruct (interp e) as [[m| |]|] eqn:E; try discriminate. injection H as <-.
  apply (interp_kind Q0 e m Hl E).
Qed.
Lemma leaves_weaken (Q1 Q2 : kind -> Prop) e : (forall k, Q1 k -> Q2 k) -> leaves Q1 e -> leaves Q2 e.
Proof. intros Hw. induction e; simpl; intuition. Qed.
Lemma leaves_bkind_env x e : boolean_env x -> leaves bkind e -> leaves (fun k => good_env k x) e.
Proof. intros Hx. apply leaves_weaken. intros k Hk. apply bkind_env; assumption. Qed.

(* PCBO().add_constraint_eq_zero(P, lam=1, bounds=(0, 1)) on a non-negative P with boolean-kind leaves is P itself *)
Lemma tmp_eq01_value P t : tmp_eq01 P = Ok t -> leaves bkind P ->
  (forall x, boolean_env x -> 0 <= denote x P) ->
  kd t = KPcbo /\ forall x, boolean_env x -> eval x (tm t) == denote x P.
Proof.
  intros H HL HP. unfold tmp_eq01 in H.
  destruct (ev P) as [Pm|] eqn:EPm; cbn [bind] in H; [|discriminate].
  destruct (add_eq empty_pcbo (tm Pm) 1 (Some 0, Some 1)) as [[[t' w0] t0]|] eqn:Eadd; cbn [bind] in H; [|discriminate].
  injection H as <-. unfold add_eq in Eadd.
  destruct (as_pubo (tm Pm)) as [P'|] eqn:EP'; cbn [bind] in Eadd; [|discriminate].
  destruct (as_pubo_spec _ _ EP') as (K' & W' & V').
  change (qeq0 1) with false in Eadd. cbv iota in Eadd.
  set (m1 := append_constraint empty_pcbo REq (tm P')) in *.
  assert (HkPm : bkind (kd Pm)) by (apply (ev_kind bkind _ _ EPm HL)).
  assert (HPm : forall x, boolean_env x -> eval x (tm Pm) == denote x P /\ wf (kd Pm) (tm Pm)).
  { intros x Hx. apply (ev_sound x _ _ EPm (leaves_bkind_env x P Hx HL)). }
  assert (Hz : boolean_env (fun _ => 0)) by (intros i; left; reflexivity).
  assert (WPm : wf KPubo (tm Pm)) by (apply (wf_to_pubo _ _ HkPm), (HPm _ Hz)).
  destruct (m_create_exact _ _ _ EP' ltac:(discriminate) WPm) as (HE & HI & _).
  assert (Hnn : forall x, boolean_env x -> 0 <= eval x (tm P')).
  { intros x Hx. rewrite (V' x Hx), (proj1 (HPm x Hx)). apply HP, Hx. }
  destruct (special_eq m1 P' 1) as [s|] eqn:Es; cbn [bind] in Eadd; [|discriminate].
  rewrite (special_eq_none_of_nonneg _ _ _ _ Es HE HI K' W' Hnn) in Eadd.
  assert (HkP' : bkind (kd P')) by (rewrite K'; apply bkind_pubo).
  destruct (core_min_zero_gen _ _ _ _ _ _ _ Eadd ltac:(lra) bkind_pcbo HkP') as [S (F1 & _)].
  split; [rewrite F1; reflexivity|]. intros x Hx. rewrite (S x Hx), (V' x Hx), (proj1 (HPm x Hx)). simpl. ring.
Qed.

(* ---- operands ---- *)
Lemma sat_leaves_bkind x e : sx_ok x e -> leaves bkind (sat_expr e).
Proof.
  induction e as [l|t|k t|g args IH] using sx_ind'; intros Hok; simpl; try apply bkind_pubo.
  - destruct Hok as (_ & Hs & Hk). split; assumption.
  - pose proof (sx_ok_args _ _ _ Hok) as Hargs. apply leaves_gate; [apply bkind_pubo|].
    clear Hok. induction args as [|a args IHa]; simpl; [constructor|].
    inversion IH; inversion Hargs; subst. constructor; [auto| apply IHa; assumption].
Qed.

Definition zero_env : env := fun _ => 0.
Lemma zero_bool : boolean_env zero_env. Proof. intros i; left; reflexivity. Qed.

Lemma ops_leaves x vs : Forall (sx_ok x) vs -> Forall (leaves bkind) (map B vs).
Proof.
  induction 1 as [|v l Hv _ IH]; simpl; [constructor|]. constructor; [|exact IH]. apply (sat_leaves_bkind x), Hv.
Qed.
Lemma ops_den x vs : Forall (sx_ok x) vs -> Forall2 (fun e b => denote x e == b2q b) (map B vs) (map (truth x) vs).
Proof.
  induction 1 as [|v l Hv _ IH]; simpl; [constructor|]. constructor; [|exact IH]. apply sat_denote, Hv.
Qed.

Lemma Forall_firstn {A} (Q0 : A -> Prop) n l : Forall Q0 l -> Forall Q0 (firstn n l).
Proof. revert n; induction l as [|a l IH]; intros [|n] H; simpl; try constructor; inversion H; subst; auto. Qed.
Lemma Forall_skipn {A} (Q0 : A -> Prop) n l : Forall Q0 l -> Forall Q0 (skipn n l).
Proof. revert n; induction l as [|a l IH]; intros [|n] H; simpl; auto. inversion H; subst; auto. Qed.

Lemma e_and_leaves es : Forall (leaves bkind) es -> leaves bkind (e_and es).
Proof. intros H. apply (leaves_gate bkind GAnd es bkind_pubo H). Qed.
Lemma e_or_leaves es : Forall (leaves bkind) es -> leaves bkind (e_or es).
Proof. intros H. apply (leaves_gate bkind GOr es bkind_pubo H). Qed.
Lemma e_xor_leaves es : Forall (leaves bkind) es -> leaves bkind (e_xor es).
Proof. intros H. apply (leaves_gate bkind GXor es bkind_pubo H). Qed.

Definition or_tr (bs : list bool) : bool := match bs with [] => true | _ => existsb (fun b => b) bs end.
Definition xor_tr (bs : list bool) : bool := match bs with [] => true | _ => fold_left xorb bs false end.
Definition and_tr (bs : list bool) : bool := forallb (fun b => b) bs.

(* a helper PCBO() holding a 0/1-valued polynomial *)
Lemma tmp_step E t (f : env -> bool) : tmp_eq01 E = Ok t -> leaves bkind E ->
  (forall x, boolean_env x -> denote x E == b2q (f x)) ->
  leaves bkind (EM t) /\ forall x, boolean_env x -> denote x (EM t) == b2q (f x).
Proof.
  intros H HL HD. destruct (tmp_eq01_value E t H HL) as [K V].
  { intros x Hx. rewrite (HD x Hx). destruct (f x); simpl; lra. }
  split; [simpl; rewrite K; apply bkind_pcbo|]. intros x Hx. simpl. rewrite (V x Hx). apply HD, Hx.
Qed.

(* what the polynomial handed to add_constraint_eq_zero means *)
Definition psem (g : gate) (is_eq : bool) (ops : list sx) (P : expr) (lo hi : Q) : Prop :=
  leaves bkind P /\ lo <= 0 /\ 0 <= hi /\ forall x, boolean_env x ->
    is_int (denote x P) /\ lo <= denote x P /\ denote x P <= hi /\ (denote x P == 0 <-> logic_holds g is_eq x ops = true).

Ltac b2q_arith :=
  repeat match goal with |- context [b2q ?b] => lazymatch b with true => fail | false => fail | _ => destruct b end end; simpl;
  repeat split; intros; try lra; try reflexivity; try discriminate; try (exists 0%Z; reflexivity); try (exists 1%Z; reflexivity);
  try (exists 2%Z; reflexivity); try (exists 3%Z; reflexivity); try (exists (-1)%Z; reflexivity).

Lemma halves_app {A} (l : list A) : fst (halves l) ++ snd (halves l) = l.
Proof. unfold halves. simpl. apply firstn_skipn. Qed.
Lemma and_tr_app a b : and_tr (a ++ b) = and_tr a && and_tr b.
Proof. unfold and_tr. apply forallb_app. Qed.

Section PolySem.
  Variables (a : sx) (vs : list sx).
  Hypothesis Ha : forall x, boolean_env x -> sx_ok x a.
  Hypothesis Hvs : forall x, boolean_env x -> Forall (sx_ok x) vs.

  Let La : leaves bkind (B a) := sat_leaves_bkind zero_env a (Ha _ zero_bool).
  Let Lvs : Forall (leaves bkind) (map B vs) := ops_leaves zero_env vs (Hvs _ zero_bool).
  Lemma Da x : boolean_env x -> denote x (B a) == b2q (truth x a).
  Proof. intros Hx. apply sat_denote, Ha, Hx. Qed.
  Lemma Dand x l : boolean_env x -> Forall (sx_ok x) l -> denote x (e_and (map B l)) == b2q (and_tr (map (truth x) l)).
  Proof. intros Hx Hl. apply den_and, ops_den, Hl. Qed.
  Lemma Dor x : boolean_env x -> denote x (e_or (map B vs)) == b2q (or_tr (map (truth x) vs)).
  Proof. intros Hx. apply den_or, ops_den, Hvs, Hx. Qed.
  Lemma Dxor x : boolean_env x -> denote x (e_xor (map B vs)) == b2q (xor_tr (map (truth x) vs)).
  Proof. intros Hx. apply den_xor, ops_den, Hvs, Hx. Qed.

  (* 1 - OR(vs), OR(vs), 1 - XOR(vs), XOR(vs) held by helper PCBO() objects *)
  Lemma tmp_not_or t1 : tmp_eq01 (sub1 (e_or (map B vs))) = Ok t1 ->
    leaves bkind (EM t1) /\ forall x, boolean_env x -> denote x (EM t1) == b2q (negb (or_tr (map (truth x) vs))).
  Proof.
    intros H. apply (tmp_step _ _ (fun x => negb (or_tr (map (truth x) vs))) H).
    - simpl. split; [exact I| apply e_or_leaves, Lvs].
    - intros x Hx. cbn [sub1 denote bop_den]. rewrite (Dor x Hx). destruct (or_tr _); simpl; ring.
  Qed.
  Lemma tmp_not_xor t1 : tmp_eq01 (sub1 (e_xor (map B vs))) = Ok t1 ->
    leaves bkind (EM t1) /\ forall x, boolean_env x -> denote x (EM t1) == b2q (negb (xor_tr (map (truth x) vs))).
  Proof.
    intros H. apply (tmp_step _ _ (fun x => negb (xor_tr (map (truth x) vs))) H).
    - simpl. split; [exact I| apply e_xor_leaves, Lvs].
    - intros x Hx. cbn [sub1 denote bop_den]. rewrite (Dxor x Hx). destruct (xor_tr _); simpl; ring.
  Qed.
  Lemma tmp_flip t1 t2 (f : env -> bool) : leaves bkind (EM t1) -> (forall x, boolean_env x -> denote x (EM t1) == b2q (f x)) ->
    tmp_eq01 (sub1 (EM t1)) = Ok t2 ->
    leaves bkind (EM t2) /\ forall x, boolean_env x -> denote x (EM t2) == b2q (negb (f x)).
  Proof.
    intros L1 D1 H. apply (tmp_step _ _ (fun x => negb (f x)) H).
    - simpl. split; [exact I| exact L1].
    - intros x Hx. cbn [sub1 denote bop_den]. rewrite (D1 x Hx). destruct (f x); simpl; ring.
  Qed.
End PolySem.

Lemma Forall_cons_inv {A} (Q0 : A -> Prop) a l : Forall Q0 (a :: l) -> Q0 a /\ Forall Q0 l.
Proof. intros H. inversion H; auto. Qed.

Lemma psem_point v V lo hi (hold : bool) : v == V -> is_int V -> lo <= V -> V <= hi -> (V == 0 <-> hold = true) ->
  is_int v /\ lo <= v /\ v <= hi /\ (v == 0 <-> hold = true).
Proof.
  intros E Hi Hl Hh Hz. split; [eapply is_int_ext; [symmetry; exact E| exact Hi]|]. rewrite E. tauto.
Qed.

(* finishing tactic: the value is an arithmetic expression in b2q of booleans *)
Ltac dbool b :=
  lazymatch b with
  | true => fail | false => fail
  | negb ?c => dbool c
  | andb ?c ?d => first [dbool c | dbool d]
  | orb ?c ?d => first [dbool c | dbool d]
  | _ => destruct b
  end.
Lemma is_int_b2q b : is_int (b2q b).
Proof. destruct b; [exists 1%Z| exists 0%Z]; reflexivity. Qed.
Lemma is_int_minus a b : is_int a -> is_int b -> is_int (a - b).
Proof. intros Ha Hb. unfold Qminus. apply is_int_plus; [exact Ha| apply is_int_opp, Hb]. Qed.
Ltac int_tac :=
  repeat first [ apply is_int_b2q | apply is_int_plus | apply is_int_minus | apply is_int_mult | apply is_int_opp
               | (exists 1%Z; reflexivity) | (exists 2%Z; reflexivity) | (exists 3%Z; reflexivity) ].
Ltac fin V HV :=
  apply (psem_point _ V); [exact HV | int_tac | | | ];
  repeat match goal with x := _ : bool |- _ => clearbody x end;
  repeat match goal with |- context [b2q ?b] => dbool b end; unfold b2q; cbn [negb andb orb Bool.eqb];
  first [lra | split; intros; try reflexivity; try discriminate; lra].

Theorem logic_poly_sem g is_eq ops P lo hi :
  logic_poly g is_eq ops = Ok (P, lo, hi) -> (forall x, boolean_env x -> Forall (sx_ok x) ops) -> psem g is_eq ops P lo hi.
Proof.
  intros H Hok. unfold psem.
  destruct is_eq.
  - (* add_constraint_eq_G(a, vs...) *)
    destruct ops as [|a vs]; [destruct g; discriminate|].
    assert (Ha : forall x, boolean_env x -> sx_ok x a) by (intros x Hx; apply (Forall_cons_inv _ _ _ (Hok x Hx))).
    assert (Hvs : forall x, boolean_env x -> Forall (sx_ok x) vs) by (intros x Hx; apply (Forall_cons_inv _ _ _ (Hok x Hx))).
    pose proof (sat_leaves_bkind zero_env a (Ha _ zero_bool)) as La.
    pose proof (ops_leaves zero_env vs (Hvs _ zero_bool)) as Lvs.
    destruct g; cbn [logic_poly] in H.
    + (* eq_BUFFER *) destruct vs as [|b [|? ?]]; try discriminate. injection H as <- <- <-.
      split; [simpl; split; [exact La| inversion Lvs; assumption]|]. split; [lra|]. split; [lra|]. intros x Hx.
      pose proof (Da a Ha x Hx) as D1. pose proof (Forall_cons_inv _ _ _ (Hvs x Hx)) as [Hb _].
      pose proof (sat_denote x b Hb) as D2. cbn [logic_holds gate_truth map].
      assert (HV : denote x (esub (B a) (B b)) == b2q (truth x a) - b2q (truth x b)) by (cbn [esub denote bop_den]; rewrite D1, D2; reflexivity).
      fin (b2q (truth x a) - b2q (truth x b)) HV.
    + (* eq_NOT *) destruct vs as [|b [|? ?]]; try discriminate.
      destruct (tmp_eq01 (e_not (B a))) as [t1|] eqn:E1; cbn [bind] in H; [|discriminate]. injection H as <- <- <-.
      destruct (tmp_step _ _ (fun x => negb (truth x a)) E1) as [L1 D1].
      { simpl. split; [exact I| exact La]. }
      { intros x Hx. cbn [e_not denote bop_den]. rewrite (Da a Ha x Hx). destruct (truth x a); simpl; ring. }
      split; [simpl; split; [exact L1| inversion Lvs; assumption]|]. split; [lra|]. split; [lra|]. intros x Hx.
      pose proof (Forall_cons_inv _ _ _ (Hvs x Hx)) as [Hb _]. pose proof (sat_denote x b Hb) as D2.
      cbn [logic_holds gate_truth map].
      assert (HV : denote x (esub (EM t1) (B b)) == b2q (negb (truth x a)) - b2q (truth x b)) by (cbn [esub denote bop_den]; rewrite (D1 x Hx), D2; reflexivity).
      fin (b2q (negb (truth x a)) - b2q (truth x b)) HV.
    + (* eq_AND *) destruct (length vs <? 2)%nat; [discriminate|].
      destruct (halves vs) as [h1 h2] eqn:Eh. injection H as <- <- <-.
      pose proof (halves_app vs) as Happ. rewrite Eh in Happ. simpl in Happ.
      assert (Lh : Forall (leaves bkind) (map B h1) /\ Forall (leaves bkind) (map B h2)).
      { rewrite <- Happ, map_app in Lvs. apply Forall_app in Lvs. exact Lvs. }
      split; [simpl; repeat split; try exact I; try exact La; apply e_and_leaves; apply Lh|]. split; [lra|]. split; [lra|]. intros x Hx.
      assert (Hh : Forall (sx_ok x) h1 /\ Forall (sx_ok x) h2) by (pose proof (Hvs x Hx) as Hv; rewrite <- Happ in Hv; apply Forall_app in Hv; exact Hv).
      pose proof (Da a Ha x Hx) as D1. pose proof (Dand x h1 Hx (proj1 Hh)) as D2. pose proof (Dand x h2 Hx (proj2 Hh)) as D3.
      set (A := truth x a) in *. set (Bh := and_tr (map (truth x) h1)) in *. set (Ch := and_tr (map (truth x) h2)) in *.
      assert (Hg : logic_holds GAnd true x (a :: vs) = Bool.eqb A (Bh && Ch)).
      { cbn [logic_holds gate_truth]. fold A. f_equal. rewrite <- Happ, map_app. apply (and_tr_app (map (truth x) h1) (map (truth x) h2)). }
      rewrite Hg.
      assert (HV : denote x (and_gadget_expr (B a) (e_and (map B h1)) (e_and (map B h2)))
                   == 3 * b2q A + b2q Bh * b2q Ch - 2 * b2q A * (b2q Bh + b2q Ch)) by (cbn [and_gadget_expr denote bop_den]; rewrite D1, D2, D3; reflexivity).
      fin (3 * b2q A + b2q Bh * b2q Ch - 2 * b2q A * (b2q Bh + b2q Ch)) HV.
    + (* eq_NAND *) destruct (length vs <? 2)%nat; [discriminate|].
      destruct (halves vs) as [h1 h2] eqn:Eh. injection H as <- <- <-.
      pose proof (halves_app vs) as Happ. rewrite Eh in Happ. simpl in Happ.
      assert (Lh : Forall (leaves bkind) (map B h1) /\ Forall (leaves bkind) (map B h2)).
      { rewrite <- Happ, map_app in Lvs. apply Forall_app in Lvs. exact Lvs. }
      split; [simpl; repeat split; try exact I; try exact La; apply e_and_leaves; apply Lh|]. split; [lra|]. split; [lra|]. intros x Hx.
      assert (Hh : Forall (sx_ok x) h1 /\ Forall (sx_ok x) h2) by (pose proof (Hvs x Hx) as Hv; rewrite <- Happ in Hv; apply Forall_app in Hv; exact Hv).
      pose proof (Da a Ha x Hx) as D1. pose proof (Dand x h1 Hx (proj1 Hh)) as D2. pose proof (Dand x h2 Hx (proj2 Hh)) as D3.
      set (A := truth x a) in *. set (Bh := and_tr (map (truth x) h1)) in *. set (Ch := and_tr (map (truth x) h2)) in *.
      assert (Hg : logic_holds GNand true x (a :: vs) = Bool.eqb A (negb (Bh && Ch))).
      { cbn [logic_holds gate_truth]. fold A. do 2 f_equal. rewrite <- Happ, map_app. apply (and_tr_app (map (truth x) h1) (map (truth x) h2)). }
      rewrite Hg.
      assert (HV : denote x (eadd (emul (e_not (B a)) (esub (EScalar 3) (emul (EScalar 2) (eadd (e_and (map B h1)) (e_and (map B h2))))))
                                  (emul (e_and (map B h1)) (e_and (map B h2))))
                   == (1 - b2q A) * (3 - 2 * (b2q Bh + b2q Ch)) + b2q Bh * b2q Ch)
        by (cbn [eadd emul esub e_not denote bop_den]; rewrite D1, D2, D3; reflexivity).
      fin ((1 - b2q A) * (3 - 2 * (b2q Bh + b2q Ch)) + b2q Bh * b2q Ch) HV.
    + (* eq_OR *) destruct (length vs <? 2)%nat eqn:El; [discriminate|].
      destruct vs as [|v1 [|v2 [|v3 vs']]]; [discriminate El| discriminate El| |].
      * injection H as <- <- <-. inversion Lvs as [|? ? L1 Lr]; subst. inversion Lr as [|? ? L2 _]; subst.
        split; [simpl; repeat split; try exact I; assumption|]. split; [lra|]. split; [lra|]. intros x Hx.
        pose proof (Hvs x Hx) as Hv. inversion Hv as [|? ? H1 Hr]; subst. inversion Hr as [|? ? H2 _]; subst.
        pose proof (Da a Ha x Hx) as D1. pose proof (sat_denote x v1 H1) as D2. pose proof (sat_denote x v2 H2) as D3.
        cbn [logic_holds gate_truth map existsb].
        set (A := truth x a) in *. set (T1 := truth x v1) in *. set (T2 := truth x v2) in *.
        assert (HV : denote x (esub (eadd (eadd (eadd (B a) (B v1)) (B v2)) (emul (B v1) (B v2))) (emul (emul (EScalar 2) (B a)) (eadd (B v1) (B v2))))
                     == b2q A + b2q T1 + b2q T2 + b2q T1 * b2q T2 - 2 * b2q A * (b2q T1 + b2q T2))
          by (cbn [eadd emul esub denote bop_den]; rewrite D1, D2, D3; reflexivity).
        fin (b2q A + b2q T1 + b2q T2 + b2q T1 * b2q T2 - 2 * b2q A * (b2q T1 + b2q T2)) HV.
      * set (ws := v1 :: v2 :: v3 :: vs') in *.
        destruct (tmp_eq01 (sub1 (e_or (map B ws)))) as [t1|] eqn:E1; cbn [bind] in H; [|discriminate].
        destruct (tmp_eq01 (sub1 (EM t1))) as [t2|] eqn:E2; cbn [bind] in H; [|discriminate]. injection H as <- <- <-.
        destruct (tmp_not_or ws Hvs t1 E1) as [L1 D1].
        destruct (tmp_flip t1 t2 _ L1 D1 E2) as [L2 D2].
        split; [simpl; split; [exact L2| exact La]|]. split; [lra|]. split; [lra|]. intros x Hx.
        set (A := truth x a). set (O := or_tr (map (truth x) ws)).
        assert (Hg : logic_holds GOr true x (a :: ws) = Bool.eqb A O) by reflexivity. rewrite Hg.
        assert (HV : denote x (esub (EM t2) (B a)) == b2q O - b2q A)
          by (cbn [esub denote bop_den]; rewrite (D2 x Hx), (Da a Ha x Hx), negb_involutive; reflexivity).
        fin (b2q O - b2q A) HV.
    + (* eq_NOR *) destruct (length vs <? 2)%nat eqn:El; [discriminate|].
      destruct vs as [|v1 [|v2 [|v3 vs']]]; [discriminate El| discriminate El| |].
      * injection H as <- <- <-. inversion Lvs as [|? ? L1 Lr]; subst. inversion Lr as [|? ? L2 _]; subst.
        split; [simpl; repeat split; try exact I; assumption|]. split; [lra|]. split; [lra|]. intros x Hx.
        pose proof (Hvs x Hx) as Hv. inversion Hv as [|? ? H1 Hr]; subst. inversion Hr as [|? ? H2 _]; subst.
        pose proof (Da a Ha x Hx) as D1. pose proof (sat_denote x v1 H1) as D2. pose proof (sat_denote x v2 H2) as D3.
        cbn [logic_holds gate_truth map existsb].
        set (A := truth x a) in *. set (T1 := truth x v1) in *. set (T2 := truth x v2) in *.
        assert (HV : denote x (eadd (eadd (esub (esub (esub (EScalar 1) (B a)) (B v1)) (B v2)) (emul (B v1) (B v2))) (emul (emul (EScalar 2) (B a)) (eadd (B v1) (B v2))))
                     == 1 - b2q A - b2q T1 - b2q T2 + b2q T1 * b2q T2 + 2 * b2q A * (b2q T1 + b2q T2))
          by (cbn [eadd emul esub denote bop_den]; rewrite D1, D2, D3; reflexivity).
        fin (1 - b2q A - b2q T1 - b2q T2 + b2q T1 * b2q T2 + 2 * b2q A * (b2q T1 + b2q T2)) HV.
      * set (ws := v1 :: v2 :: v3 :: vs') in *.
        destruct (tmp_eq01 (sub1 (e_or (map B ws)))) as [t1|] eqn:E1; cbn [bind] in H; [|discriminate]. injection H as <- <- <-.
        destruct (tmp_not_or ws Hvs t1 E1) as [L1 D1].
        split; [simpl; split; [exact L1| exact La]|]. split; [lra|]. split; [lra|]. intros x Hx.
        set (A := truth x a). set (O := or_tr (map (truth x) ws)).
        assert (Hg : logic_holds GNor true x (a :: ws) = Bool.eqb A (negb O)) by reflexivity. rewrite Hg.
        assert (HV : denote x (esub (EM t1) (B a)) == b2q (negb O) - b2q A)
          by (cbn [esub denote bop_den]; rewrite (D1 x Hx), (Da a Ha x Hx); reflexivity).
        fin (b2q (negb O) - b2q A) HV.
    + (* eq_XOR *)
      destruct (tmp_eq01 (sub1 (e_xor (map B vs)))) as [t1|] eqn:E1; cbn [bind] in H; [|discriminate].
      destruct (tmp_eq01 (sub1 (EM t1))) as [t2|] eqn:E2; cbn [bind] in H; [|discriminate]. injection H as <- <- <-.
      destruct (tmp_not_xor vs Hvs t1 E1) as [L1 D1].
      destruct (tmp_flip t1 t2 _ L1 D1 E2) as [L2 D2].
      split; [simpl; split; [exact L2| exact La]|]. split; [lra|]. split; [lra|]. intros x Hx.
      set (A := truth x a). set (O := xor_tr (map (truth x) vs)).
      assert (Hg : logic_holds GXor true x (a :: vs) = Bool.eqb A O) by reflexivity. rewrite Hg.
      assert (HV : denote x (esub (EM t2) (B a)) == b2q O - b2q A)
        by (cbn [esub denote bop_den]; rewrite (D2 x Hx), (Da a Ha x Hx), negb_involutive; reflexivity).
      fin (b2q O - b2q A) HV.
    + (* eq_XNOR *)
      destruct (tmp_eq01 (sub1 (e_xor (map B vs)))) as [t1|] eqn:E1; cbn [bind] in H; [|discriminate]. injection H as <- <- <-.
      destruct (tmp_not_xor vs Hvs t1 E1) as [L1 D1].
      split; [simpl; split; [exact L1| exact La]|]. split; [lra|]. split; [lra|]. intros x Hx.
      set (A := truth x a). set (O := xor_tr (map (truth x) vs)).
      assert (Hg : logic_holds GXnor true x (a :: vs) = Bool.eqb A (negb O)) by reflexivity. rewrite Hg.
      assert (HV : denote x (esub (EM t1) (B a)) == b2q (negb O) - b2q A)
        by (cbn [esub denote bop_den]; rewrite (D1 x Hx), (Da a Ha x Hx); reflexivity).
      fin (b2q (negb O) - b2q A) HV.
  - (* add_constraint_G(vs...) *)
    rename ops into vs. assert (Hvs : forall x, boolean_env x -> Forall (sx_ok x) vs) by exact Hok.
    pose proof (ops_leaves zero_env vs (Hvs _ zero_bool)) as Lvs.
    destruct g; cbn [logic_poly] in H.
    + (* BUFFER *) destruct vs as [|a [|? ?]]; try discriminate. injection H as <- <- <-.
      inversion Lvs as [|? ? La _]; subst. split; [simpl; split; [exact I| exact La]|]. split; [lra|]. split; [lra|]. intros x Hx.
      pose proof (Forall_cons_inv _ _ _ (Hvs x Hx)) as [Ha _]. pose proof (sat_denote x a Ha) as D1.
      cbn [logic_holds gate_truth map]. set (A := truth x a) in *.
      assert (HV : denote x (e_not (B a)) == 1 - b2q A) by (cbn [e_not denote bop_den]; rewrite D1; reflexivity).
      fin (1 - b2q A) HV.
    + (* NOT *) destruct vs as [|a [|? ?]]; try discriminate. injection H as <- <- <-.
      inversion Lvs as [|? ? La _]; subst. split; [exact La|]. split; [lra|]. split; [lra|]. intros x Hx.
      pose proof (Forall_cons_inv _ _ _ (Hvs x Hx)) as [Ha _]. pose proof (sat_denote x a Ha) as D1.
      cbn [logic_holds gate_truth map]. set (A := truth x a) in *.
      fin (b2q A) D1.
    + (* AND *) injection H as <- <- <-. split; [simpl; split; [exact I| apply e_and_leaves, Lvs]|]. split; [lra|]. split; [lra|]. intros x Hx.
      set (O := and_tr (map (truth x) vs)). assert (Hg : logic_holds GAnd false x vs = O) by reflexivity. rewrite Hg.
      assert (HV : denote x (e_not (e_and (map B vs))) == 1 - b2q O) by (cbn [e_not denote bop_den]; rewrite (Dand x vs Hx (Hvs x Hx)); reflexivity).
      fin (1 - b2q O) HV.
    + (* NAND *) injection H as <- <- <-. split; [apply e_and_leaves, Lvs|]. split; [lra|]. split; [lra|]. intros x Hx.
      set (O := and_tr (map (truth x) vs)). assert (Hg : logic_holds GNand false x vs = negb O) by reflexivity. rewrite Hg.
      pose proof (Dand x vs Hx (Hvs x Hx)) as HV. fold O in HV.
      fin (b2q O) HV.
    + (* OR *) injection H as <- <- <-. split; [simpl; split; [exact I| apply e_or_leaves, Lvs]|]. split; [lra|]. split; [lra|]. intros x Hx.
      set (O := or_tr (map (truth x) vs)). assert (Hg : logic_holds GOr false x vs = O) by reflexivity. rewrite Hg.
      assert (HV : denote x (sub1 (e_or (map B vs))) == 1 - b2q O) by (cbn [sub1 denote bop_den]; rewrite (Dor vs Hvs x Hx); reflexivity).
      fin (1 - b2q O) HV.
    + (* NOR *)
      destruct (tmp_eq01 (sub1 (e_or (map B vs)))) as [t1|] eqn:E1; cbn [bind] in H; [|discriminate]. injection H as <- <- <-.
      destruct (tmp_not_or vs Hvs t1 E1) as [L1 D1].
      split; [simpl; split; [exact I| exact L1]|]. split; [lra|]. split; [lra|]. intros x Hx.
      set (O := or_tr (map (truth x) vs)). assert (Hg : logic_holds GNor false x vs = negb O) by reflexivity. rewrite Hg.
      assert (HV : denote x (sub1 (EM t1)) == 1 - b2q (negb O)) by (cbn [sub1 denote bop_den]; rewrite (D1 x Hx); reflexivity).
      fin (1 - b2q (negb O)) HV.
    + (* XOR *) injection H as <- <- <-. split; [simpl; split; [exact I| apply e_xor_leaves, Lvs]|]. split; [lra|]. split; [lra|]. intros x Hx.
      set (O := xor_tr (map (truth x) vs)). assert (Hg : logic_holds GXor false x vs = O) by reflexivity. rewrite Hg.
      assert (HV : denote x (sub1 (e_xor (map B vs))) == 1 - b2q O) by (cbn [sub1 denote bop_den]; rewrite (Dxor vs Hvs x Hx); reflexivity).
      fin (1 - b2q O) HV.
    + (* XNOR *)
      destruct (tmp_eq01 (sub1 (e_xor (map B vs)))) as [t1|] eqn:E1; cbn [bind] in H; [|discriminate]. injection H as <- <- <-.
      destruct (tmp_not_xor vs Hvs t1 E1) as [L1 D1].
      split; [simpl; split; [exact I| exact L1]|]. split; [lra|]. split; [lra|]. intros x Hx.
      set (O := xor_tr (map (truth x) vs)). assert (Hg : logic_holds GXnor false x vs = negb O) by reflexivity. rewrite Hg.
      assert (HV : denote x (sub1 (EM t1)) == 1 - b2q (negb O)) by (cbn [sub1 denote bop_den]; rewrite (D1 x Hx); reflexivity).
      fin (1 - b2q (negb O)) HV.
Qed.

(* the sixteen methods: no ancillas, the added terms vanish exactly on the assignments where the gate
   relation holds and are at least lam elsewhere; the constraint is recorded for is_solution_valid *)
Theorem add_logic_spec g is_eq m ops lam m' w t :
  add_logic g is_eq m ops lam = Ok (m', w, t) -> bkind (kd m) -> ~ lam == 0 ->
  (forall x, boolean_env x -> Forall (sx_ok x) ops) ->
  exists G Pc, step_ok m m' lam G /\ anc m' = anc m /\ kd m' = kd m /\ cons m' = cons m ++ [(REq, Pc)]
    /\ (forall x, boolean_env x -> (eval x Pc == 0 <-> logic_holds g is_eq x ops = true))
    /\ forall x, boolean_env x ->
         0 <= G x /\ (logic_holds g is_eq x ops = true -> G x == 0) /\ (logic_holds g is_eq x ops = false -> 1 <= G x).
Proof.
  intros H Hk Hlam Hok. unfold add_logic in H.
  destruct (ops_check ops) as [[]|]; cbn [bind] in H; [|discriminate].
  destruct (logic_poly g is_eq ops) as [[[P lo] hi]|] eqn:EP; cbn [bind] in H; [|discriminate].
  destruct (ev P) as [Pm|] eqn:EPm; cbn [bind] in H; [|discriminate].
  destruct (logic_poly_sem _ _ _ _ _ _ EP Hok) as (HL & Hlo & Hhi & HS).
  assert (HPm : forall x, boolean_env x -> eval x (tm Pm) == denote x P).
  { intros x Hx. apply (ev_sound x _ _ EPm (leaves_bkind_env x P Hx HL)). }
  assert (Hint : int_v (fun x => eval x (tm Pm))).
  { intros x Hx. eapply is_int_ext; [symmetry; apply HPm, Hx| apply (HS x Hx)]. }
  assert (Hb : bvalid (fun x => eval x (tm Pm)) (Some lo, Some hi)).
  { split; intros v [= <-] x Hx; rewrite (HPm x Hx); apply (HS x Hx). }
  destruct (add_eq_spec _ _ _ _ _ _ _ H Hk Hlam Hint Hb) as (G & P3 & EP3 & S & (F1 & F3) & F2 & NN & PE & UN & _).
  destruct (as_pubo_spec _ _ EP3) as (_ & _ & V3).
  exists G, (tm P3). split; [exact S|]. split; [exact F2|]. split; [exact F1|]. split; [exact F3|].
  assert (Hw : w <> WUnsat).
  { intros Hw'. destruct (UN Hw') as [U|U]; rewrite get_bounds_given in U; simpl in U; lra. }
  destruct (PE Hw) as (A & B0 & C0).
  split.
  - intros x Hx. rewrite (V3 x Hx), (HPm x Hx). apply (HS x Hx).
  - intros x Hx. destruct (HS x Hx) as (_ & _ & _ & Hiff). split; [apply A, Hx|]. split.
    + intros Hh. apply (B0 x Hx). rewrite (HPm x Hx). apply Hiff, Hh.
    + intros Hh. apply (C0 x Hx). rewrite (HPm x Hx). intros Hz. apply Hiff in Hz. congruence.
Qed.
