(* C16: the constraint methods are homogeneous in the weight.  Two runs of the same call that differ only
   in lam take the same branch, record the same constraint, use the same ancillas, and add
   lam1 * G resp. lam2 * G for one and the same G.  Nothing in this file looks at what G is. *)
From QV.Model Require Import Base Matrix Arith Expr Extrema Sat PCBO Logic Convert PCSO.
From QV.Proofs Require Import BaseProofs KeyProofs ArithProofs ExprProofs InvProofs ConvertProofs PenaltyArith PCBOProofs.
From Coq Require Import Lia Lqa.
Open Scope Q_scope.

Definition frame2 (a c : model) : Prop := kd a = kd c /\ anc a = anc c /\ cons a = cons c.
(* relative to the polynomial t0 both results started from *)
Definition hom (t0 : terms) (a c : model) (l1 l2 : Q) : Prop :=
  frame2 a c /\ forall x, boolean_env x -> l1 * (eval x (tm c) - eval x t0) == l2 * (eval x (tm a) - eval x t0).

Lemma frame_frame2 m a c : frame m a -> frame m c -> frame2 a c.
Proof. intros (A1 & A2 & A3) (C1 & C2 & C3). repeat split; congruence. Qed.

Lemma hom_steps m a c l1 l2 (G1 G2 : env -> Q) :
  frame2 a c ->
  (forall x, boolean_env x -> eval x (tm a) == eval x (tm m) + G1 x) ->
  (forall x, boolean_env x -> eval x (tm c) == eval x (tm m) + G2 x) ->
  (forall x, boolean_env x -> l1 * G2 x == l2 * G1 x) -> hom (tm m) a c l1 l2.
Proof. intros F A C0 E. split; [exact F|]. intros x Hx. rewrite (A x Hx), (C0 x Hx). specialize (E x Hx). lra. Qed.

(* both runs add the value of an expression *)
Lemma hom_ev m e1 e2 X1 X2 a c l1 l2 :
  ev e1 = Ok X1 -> ev e2 = Ok X2 -> iadd_m m X1 = Ok a -> iadd_m m X2 = Ok c -> bkind (kd m) ->
  (forall x, boolean_env x -> leaves (fun k => good_env k x) e1) ->
  (forall x, boolean_env x -> leaves (fun k => good_env k x) e2) ->
  (forall x, boolean_env x -> l1 * denote x e2 == l2 * denote x e1) -> hom (tm m) a c l1 l2.
Proof.
  intros E1 E2 A C0 Hk L1 L2 D.
  apply (hom_steps m a c l1 l2 (fun x => denote x e1) (fun x => denote x e2)).
  - eapply frame_frame2; eapply iadd_m_frame; eassumption.
  - intros x Hx. apply (iadd_ev_step x _ _ _ _ E1 A Hk Hx (L1 x Hx)).
  - intros x Hx. apply (iadd_ev_step x _ _ _ _ E2 C0 Hk Hx (L2 x Hx)).
  - exact D.
Qed.
Lemma isub_ev_step x m e X m' : ev e = Ok X -> isub_m m X = Ok m' -> bkind (kd m) -> boolean_env x ->
  leaves (fun k => good_env k x) e -> eval x (tm m') == eval x (tm m) + - denote x e.
Proof.
  intros HX Hm Hk Hx Hl. destruct (ev_sound x _ _ HX Hl) as [A _]. rewrite (isub_m_step x _ _ _ Hm Hk Hx), A. ring.
Qed.
Lemma hom_ev_sub m e1 e2 X1 X2 a c l1 l2 :
  ev e1 = Ok X1 -> ev e2 = Ok X2 -> isub_m m X1 = Ok a -> isub_m m X2 = Ok c -> bkind (kd m) ->
  (forall x, boolean_env x -> leaves (fun k => good_env k x) e1) ->
  (forall x, boolean_env x -> leaves (fun k => good_env k x) e2) ->
  (forall x, boolean_env x -> l1 * denote x e2 == l2 * denote x e1) -> hom (tm m) a c l1 l2.
Proof.
  intros E1 E2 A C0 Hk L1 L2 D.
  apply (hom_steps m a c l1 l2 (fun x => - denote x e1) (fun x => - denote x e2)).
  - eapply frame_frame2; eapply isub_m_frame; eassumption.
  - intros x Hx. apply (isub_ev_step x _ _ _ _ E1 A Hk Hx (L1 x Hx)).
  - intros x Hx. apply (isub_ev_step x _ _ _ _ E2 C0 Hk Hx (L2 x Hx)).
  - intros x Hx. specialize (D x Hx). lra.
Qed.

(* both runs add a temporary model built from the empty PCBO *)
Lemma hom_tmp m t1 t2 a c l1 l2 :
  hom (tm empty_pcbo) t1 t2 l1 l2 -> iadd_m m t1 = Ok a -> iadd_m m t2 = Ok c -> bkind (kd m) -> hom (tm m) a c l1 l2.
Proof.
  intros [_ Ht] A C0 Hk.
  apply (hom_steps m a c l1 l2 (fun x => eval x (tm t1)) (fun x => eval x (tm t2))).
  - eapply frame_frame2; eapply iadd_m_frame; eassumption.
  - intros x Hx. apply (iadd_m_step x _ _ _ A Hk Hx).
  - intros x Hx. apply (iadd_m_step x _ _ _ C0 Hk Hx).
  - intros x Hx. specialize (Ht x Hx). simpl in Ht. lra.
Qed.

Lemma hom_refl m l1 l2 : hom (tm m) m m l1 l2.
Proof. split; [repeat split|]. intros x _. ring. Qed.

Ltac b2 H1 H2 n1 n2 e1 e2 :=
  match type of H1 with
  | bind ?s _ = Ok _ => destruct s as [n1|] eqn:e1; cbn [bind] in H1; [|discriminate]
  end;
  match type of H2 with
  | bind ?s _ = Ok _ => destruct s as [n2|] eqn:e2; cbn [bind] in H2; [|discriminate]
  end.
Ltac b1 H1 H2 n e :=
  match type of H1 with
  | bind ?s _ = Ok _ => destruct s as [n|] eqn:e; cbn [bind] in H1, H2; [|discriminate]
  end.
Ltac lamP_leaves Hk HP := intros x Hx; simpl; repeat split; try exact I; apply bkind_env; assumption.
Ltac core_leaf H1 H2 Hk HP lem :=
  let X1 := fresh "X" in let X2 := fresh "X" in let a' := fresh "a" in let c' := fresh "c" in
  let E1 := fresh "E" in let E2 := fresh "E" in let A1 := fresh "A" in let A2 := fresh "A" in
  b2 H1 H2 X1 X2 E1 E2; b2 H1 H2 a' c' A1 A2; injection H1 as <- <- <-; injection H2 as <- <- <-;
  split; [|split; reflexivity];
  apply (lem _ _ _ _ _ _ _ _ _ E1 E2 A1 A2 Hk); [lamP_leaves Hk HP| lamP_leaves Hk HP| intros x Hx; simpl; ring].

Theorem core_hom m P l1 l2 b a w1 t1 c w2 t2 :
  eq_zero_core m P l1 b = Ok (a, w1, t1) -> eq_zero_core m P l2 b = Ok (c, w2, t2) -> bkind (kd m) -> bkind (kd P) ->
  hom (tm m) a c l1 l2 /\ w1 = w2 /\ t1 = t2.
Proof.
  intros H1 H2 Hk HP. unfold eq_zero_core in H1, H2. destruct (get_bounds (tm P) b) as [lo hi].
  destruct (qeq0 lo && qeq0 hi).
  { injection H1 as <- <- <-. injection H2 as <- <- <-. split; [apply hom_refl| split; reflexivity]. }
  destruct (qgt0 lo). { core_leaf H1 H2 Hk HP hom_ev. }
  destruct (qlt0 hi). { core_leaf H1 H2 Hk HP hom_ev_sub. }
  destruct (qeq0 lo). { core_leaf H1 H2 Hk HP hom_ev. }
  destruct (qeq0 hi). { core_leaf H1 H2 Hk HP hom_ev_sub. }
  core_leaf H1 H2 Hk HP hom_ev.
Qed.

(* ---- the a == b*c shortcut ---- *)
Theorem special_eq_hom m P l1 l2 r1 r2 :
  special_eq m P l1 = Ok r1 -> special_eq m P l2 = Ok r2 -> bkind (kd m) ->
  match r1, r2 with
  | Some a, Some c => hom (tm m) a c l1 l2
  | None, None => True
  | _, _ => False
  end.
Proof.
  intros H1 H2 Hk. unfold special_eq in H1, H2.
  destruct (tm P) as [|[k0 v0] [|[k1 v1] [|? ?]]];
    try (injection H1 as <-; injection H2 as <-; exact I).
  destruct (qeq0 _ && Nat.eqb _ 3 && Qeq_bool v0 (- v1)); [|injection H1 as <-; injection H2 as <-; exact I].
  destruct k0 as [|a0 [|b0 [|? ?]]], k1 as [|a1 [|b1 [|? ?]]];
    try (injection H1 as <-; injection H2 as <-; exact I).
  - b1 H1 H2 G EG. b1 H1 H2 G' EG'.
    destruct (eq_zero_core empty_pcbo G' l1 (Some 0, Some 3)) as [[[tmp1 w1] t1]|] eqn:C1; cbn [bind] in H1; [|discriminate].
    destruct (eq_zero_core empty_pcbo G' l2 (Some 0, Some 3)) as [[[tmp2 w2] t2]|] eqn:C2; cbn [bind] in H2; [|discriminate].
    b2 H1 H2 a c A1 A2. injection H1 as <-. injection H2 as <-.
    destruct (as_pubo_spec _ _ EG') as (K1 & _ & _).
    assert (HP1 : bkind (kd G')) by (rewrite K1; apply bkind_pubo).
    destruct (core_hom _ _ _ _ _ _ _ _ _ _ _ C1 C2 bkind_pcbo HP1) as [Hh _].
    eapply hom_tmp; eassumption.
  - b1 H1 H2 G EG. b1 H1 H2 G' EG'.
    destruct (eq_zero_core empty_pcbo G' l1 (Some 0, Some 3)) as [[[tmp1 w1] t1]|] eqn:C1; cbn [bind] in H1; [|discriminate].
    destruct (eq_zero_core empty_pcbo G' l2 (Some 0, Some 3)) as [[[tmp2 w2] t2]|] eqn:C2; cbn [bind] in H2; [|discriminate].
    b2 H1 H2 a c A1 A2. injection H1 as <-. injection H2 as <-.
    destruct (as_pubo_spec _ _ EG') as (K1 & _ & _).
    assert (HP1 : bkind (kd G')) by (rewrite K1; apply bkind_pubo).
    destruct (core_hom _ _ _ _ _ _ _ _ _ _ _ C1 C2 bkind_pcbo HP1) as [Hh _].
    eapply hom_tmp; eassumption.
Qed.

Lemma hom_base t0 t0' a c l1 l2 : (forall x, eval x t0 == eval x t0') -> hom t0 a c l1 l2 -> hom t0' a c l1 l2.
Proof. intros E [F H]. split; [exact F|]. intros x Hx. rewrite <- (E x). apply H, Hx. Qed.

Definition res_hom (t0 : terms) (r1 r2 : model * warn * tag) (l1 l2 : Q) : Prop :=
  let '(a, w1, t1) := r1 in let '(c, w2, t2) := r2 in hom t0 a c l1 l2 /\ w1 = w2 /\ t1 = t2.

Theorem add_eq_hom m Pin l1 l2 b r1 r2 :
  add_eq m Pin l1 b = Ok r1 -> add_eq m Pin l2 b = Ok r2 -> bkind (kd m) -> ~ l1 == 0 -> ~ l2 == 0 ->
  res_hom (tm m) r1 r2 l1 l2.
Proof.
  intros H1 H2 Hk N1 N2. unfold add_eq in H1, H2. b1 H1 H2 P EP.
  destruct (as_pubo_spec _ _ EP) as (KP & _ & _).
  assert (HkP : bkind (kd P)) by (rewrite KP; apply bkind_pubo).
  destruct (qeq0 l1) eqn:Q1; [apply qeq0_spec in Q1; contradiction|].
  destruct (qeq0 l2) eqn:Q2; [apply qeq0_spec in Q2; contradiction|].
  set (m1 := append_constraint m REq (tm P)) in *.
  assert (Hk1 : bkind (kd m1)) by exact Hk.
  b2 H1 H2 s1 s2 S1 S2. pose proof (special_eq_hom _ _ _ _ _ _ S1 S2 Hk1) as Hs.
  destruct s1 as [a|], s2 as [c|]; try contradiction.
  - injection H1 as <-. injection H2 as <-. simpl. split; [exact Hs| split; reflexivity].
  - destruct r1 as [[a w1] t1], r2 as [[c w2] t2]. simpl. apply (core_hom _ _ _ _ _ _ _ _ _ _ _ H1 H2 Hk1 HkP).
Qed.

(* ---- the <= shortcuts ---- *)
Ltac none2 H1 H2 := injection H1 as <-; injection H2 as <-; exact I.
Theorem special_le_hom m P l1 l2 lt lo hi r1 r2 :
  special_le m P l1 lt lo hi = Ok r1 -> special_le m P l2 lt lo hi = Ok r2 -> bkind (kd m) -> bkind (kd P) ->
  match r1, r2 with
  | Some (a, t1), Some (c, t2) => hom (tm m) a c l1 l2 /\ t1 = t2
  | None, None => True
  | _, _ => False
  end.
Proof.
  intros H1 H2 Hk HP. unfold special_le in H1, H2.
  set (off := get_sq (tm P) []) in *.
  b1 H1 H2 Pwo EW.
  assert (HWl : forall x, boolean_env x -> leaves (fun k => good_env k x) (EBin false OpSub (EM P) (EScalar off))).
  { intros x Hx. simpl. split; [apply bkind_env; assumption| exact I]. }
  assert (HWe : forall x, boolean_env x -> good_env (kd Pwo) x) by (intros x Hx; apply (ev_sound_env x _ _ EW (HWl x Hx))).
  destruct (Qeq_bool off (-(1)) && forallb (fun '(_, v) => Qeq_bool v 1) (tm Pwo)).
  { b2 H1 H2 X1 X2 E1 E2. b2 H1 H2 a c A1 A2. injection H1 as <-. injection H2 as <-. split; [|reflexivity].
    apply (hom_ev _ _ _ _ _ _ _ _ _ E1 E2 A1 A2 Hk).
    - intros x Hx. simpl. repeat split; try exact I; [apply bkind_env; assumption| apply HWe, Hx].
    - intros x Hx. simpl. repeat split; try exact I; [apply bkind_env; assumption| apply HWe, Hx].
    - intros x Hx. simpl. field. }
  destruct (negb lt && qeq0 (lo - off) && negb (qgt0 off) && negb (qeq0 lo)).
  { b1 H1 H2 n En. b1 H1 H2 ancs Ea. b1 H1 H2 diff Ed.
    b2 H1 H2 X1 X2 E1 E2. b2 H1 H2 a c A1 A2. injection H1 as <-. injection H2 as <-. split; [|reflexivity].
    assert (Hdl : forall x, boolean_env x -> leaves (fun k => good_env k x) (EBin false OpSub (EM Pwo) (EM ancs))).
    { intros x Hx. simpl. split; [apply HWe, Hx|]. destruct (mk_ancs_spec x (anc m) n 0 _ _ Ea bkind_pubo Hx) as [_ K]. rewrite K. exact Hx. }
    assert (Hk' : bkind (kd (with_anc m (anc m + n)))) by exact Hk.
    change (tm m) with (tm (with_anc m (anc m + n))).
    apply (hom_ev _ _ _ _ _ _ _ _ _ E1 E2 A1 A2 Hk').
    - intros x Hx. pose proof (ev_sound_env x _ _ Ed (Hdl x Hx)) as He. simpl. repeat split; try exact I; exact He.
    - intros x Hx. pose proof (ev_sound_env x _ _ Ed (Hdl x Hx)) as He. simpl. repeat split; try exact I; exact He.
    - intros x Hx. simpl. ring. }
  destruct (Qeq_bool off 1 && Nat.eqb (length (tm Pwo)) 2 && forallb (fun '(_, v) => Qeq_bool v (-(1))) (tm Pwo)).
  { destruct (tm Pwo) as [|[k0 v0] [|[k1 v1] [|? ?]]]; try (none2 H1 H2).
    b1 H1 H2 P2 EP2. b1 H1 H2 P2' EP2'.
    destruct (eq_zero_core empty_pcbo P2' l1 (Some 0, Some 1)) as [[[tmp1 w1] t1]|] eqn:C1; cbn [bind] in H1; [|discriminate].
    destruct (eq_zero_core empty_pcbo P2' l2 (Some 0, Some 1)) as [[[tmp2 w2] t2]|] eqn:C2; cbn [bind] in H2; [|discriminate].
    b2 H1 H2 a c A1 A2. injection H1 as <-. injection H2 as <-. split; [|reflexivity].
    destruct (as_pubo_spec _ _ EP2') as (K2 & _ & _).
    assert (HP2 : bkind (kd P2')) by (rewrite K2; apply bkind_pubo).
    destruct (core_hom _ _ _ _ _ _ _ _ _ _ _ C1 C2 bkind_pcbo HP2) as [Hh _].
    eapply hom_tmp; eassumption. }
  destruct (qeq0 off && Nat.eqb (length (tm P)) 2 && _); [|none2 H1 H2].
  destruct (tm P) as [|[k0 v0] [|[k1 v1] [|? ?]]]; try (none2 H1 H2).
  destruct (if Qeq_bool v0 1 then (k0, k1) else (k1, k0)) as [kp kn].
  b2 H1 H2 X1 X2 E1 E2. b2 H1 H2 a c A1 A2. injection H1 as <-. injection H2 as <-. split; [|reflexivity].
  apply (hom_ev _ _ _ _ _ _ _ _ _ E1 E2 A1 A2 Hk).
  - intros x Hx. simpl. repeat split; try exact I; apply AND_of_key_leaves, Hx.
  - intros x Hx. simpl. repeat split; try exact I; apply AND_of_key_leaves, Hx.
  - intros x Hx. simpl. ring.
Qed.

Lemma hom_pop t0 a c l1 l2 r : hom t0 a c l1 l2 -> hom t0 (pop_constraint a r) (pop_constraint c r) l1 l2.
Proof. intros [(F1 & F2 & F3) H]. split; [|exact H]. repeat split; simpl; congruence. Qed.
Lemma res_hom_intro t0 a c w1 w2 t1 t2 l1 l2 : hom t0 a c l1 l2 -> w1 = w2 -> t1 = t2 -> res_hom t0 (a, w1, t1) (c, w2, t2) l1 l2.
Proof. simpl. auto. Qed.

Theorem add_le_hom m Pin l1 l2 lt b r1 r2 :
  add_le m Pin l1 lt b = Ok r1 -> add_le m Pin l2 lt b = Ok r2 -> bkind (kd m) -> ~ l1 == 0 -> ~ l2 == 0 ->
  res_hom (tm m) r1 r2 l1 l2.
Proof.
  intros H1 H2 Hk N1 N2. unfold add_le in H1, H2. b1 H1 H2 P EP.
  destruct (as_pubo_spec _ _ EP) as (KP & _ & _).
  assert (HkP : bkind (kd P)) by (rewrite KP; apply bkind_pubo).
  destruct (qeq0 l1) eqn:Q1; [apply qeq0_spec in Q1; contradiction|].
  destruct (qeq0 l2) eqn:Q2; [apply qeq0_spec in Q2; contradiction|].
  set (m1 := append_constraint m RLe (tm P)) in *.
  assert (Hk1 : bkind (kd m1)) by exact Hk.
  destruct (get_bounds (tm P) b) as [lo hi].
  b2 H1 H2 s1 s2 S1 S2. pose proof (special_le_hom _ _ _ _ _ _ _ _ _ S1 S2 Hk1 HkP) as Hs.
  destruct s1 as [[a t1]|], s2 as [[c t2]|]; try contradiction.
  { destruct Hs as [Hh Ht]. injection H1 as <-. injection H2 as <-. apply res_hom_intro; auto. }
  destruct (qgt0 lo).
  { b2 H1 H2 X1 X2 E1 E2. b2 H1 H2 a c A1 A2. injection H1 as <-. injection H2 as <-. apply res_hom_intro; auto.
    apply (hom_ev _ _ _ _ _ _ _ _ _ E1 E2 A1 A2 Hk1); [lamP_leaves Hk HkP| lamP_leaves Hk HkP| intros x Hx; simpl; ring]. }
  destruct (negb (qgt0 hi)).
  { injection H1 as <-. injection H2 as <-. apply res_hom_intro; auto. apply (hom_refl m1). }
  b1 H1 H2 Pc EPc. b1 H1 H2 q Eqq. destruct q as [[Ps hi'] n].
  destruct (add_eq (with_anc m1 (anc m1 + n)) (tm Ps) l1 (Some lo, Some hi')) as [[[m3 w3] t3]|] eqn:A1; cbn [bind] in H1; [|discriminate].
  destruct (add_eq (with_anc m1 (anc m1 + n)) (tm Ps) l2 (Some lo, Some hi')) as [[[m4 w4] t4]|] eqn:A2; cbn [bind] in H2; [|discriminate].
  injection H1 as <-. injection H2 as <-.
  assert (Hk2 : bkind (kd (with_anc m1 (anc m1 + n)))) by exact Hk.
  destruct (add_eq_hom _ _ _ _ _ _ _ A1 A2 Hk2 N1 N2) as (Hh & _ & Ht).
  apply res_hom_intro; [apply hom_pop; exact Hh| reflexivity| reflexivity].
Qed.

Theorem add_lt_hom m Pin l1 l2 lt b r1 r2 :
  add_lt m Pin l1 lt b = Ok r1 -> add_lt m Pin l2 lt b = Ok r2 -> bkind (kd m) -> ~ l1 == 0 -> ~ l2 == 0 ->
  res_hom (tm m) r1 r2 l1 l2.
Proof.
  intros H1 H2 Hk N1 N2. unfold add_lt in H1, H2. b1 H1 H2 P EP.
  destruct (as_pubo_spec _ _ EP) as (KP & _ & _).
  assert (HkP : bkind (kd P)) by (rewrite KP; apply bkind_pubo).
  destruct (qeq0 l1) eqn:Q1; [apply qeq0_spec in Q1; contradiction|].
  destruct (qeq0 l2) eqn:Q2; [apply qeq0_spec in Q2; contradiction|].
  set (m1 := append_constraint m RLt (tm P)) in *.
  assert (Hk1 : bkind (kd m1)) by exact Hk.
  destruct (get_bounds (tm P) b) as [lo hi].
  destruct (negb (qlt0 lo)).
  { b2 H1 H2 X1 X2 E1 E2. b2 H1 H2 a c A1 A2. injection H1 as <-. injection H2 as <-. apply res_hom_intro; auto.
    apply (hom_ev _ _ _ _ _ _ _ _ _ E1 E2 A1 A2 Hk1); [lamP_leaves Hk HkP| lamP_leaves Hk HkP| intros x Hx; simpl; ring]. }
  destruct (qlt0 hi).
  { injection H1 as <-. injection H2 as <-. apply res_hom_intro; auto. apply (hom_refl m1). }
  b1 H1 H2 P1 EP1.
  destruct (add_le m1 (tm P1) l1 lt (Some (lo + 1), Some (hi + 1))) as [[[m2 w2] t2]|] eqn:A1; cbn [bind] in H1; [|discriminate].
  destruct (add_le m1 (tm P1) l2 lt (Some (lo + 1), Some (hi + 1))) as [[[m3 w3] t3]|] eqn:A2; cbn [bind] in H2; [|discriminate].
  injection H1 as <-. injection H2 as <-.
  destruct (add_le_hom _ _ _ _ _ _ _ _ A1 A2 Hk1 N1 N2) as (Hh & _ & Ht).
  apply res_hom_intro; [apply hom_pop; exact Hh| reflexivity| exact Ht].
Qed.

Theorem add_gt_hom m Pin l1 l2 lt b r1 r2 :
  add_gt m Pin l1 lt b = Ok r1 -> add_gt m Pin l2 lt b = Ok r2 -> bkind (kd m) -> ~ l1 == 0 -> ~ l2 == 0 ->
  res_hom (tm m) r1 r2 l1 l2.
Proof.
  intros H1 H2 Hk N1 N2. unfold add_gt in H1, H2. b1 H1 H2 P EP.
  destruct (qeq0 l1) eqn:Q1; [apply qeq0_spec in Q1; contradiction|].
  destruct (qeq0 l2) eqn:Q2; [apply qeq0_spec in Q2; contradiction|].
  set (m1 := append_constraint m RGt (tm P)) in *.
  assert (Hk1 : bkind (kd m1)) by exact Hk.
  destruct (get_bounds (tm P) b) as [lo hi]. b1 H1 H2 Pn EPn.
  destruct (add_lt m1 (tm Pn) l1 lt (Some (- hi), Some (- lo))) as [[[m2 w2] t2]|] eqn:A1; cbn [bind] in H1; [|discriminate].
  destruct (add_lt m1 (tm Pn) l2 lt (Some (- hi), Some (- lo))) as [[[m3 w3] t3]|] eqn:A2; cbn [bind] in H2; [|discriminate].
  injection H1 as <-. injection H2 as <-.
  destruct (add_lt_hom _ _ _ _ _ _ _ _ A1 A2 Hk1 N1 N2) as (Hh & Hw & Ht).
  apply res_hom_intro; [apply hom_pop; exact Hh| exact Hw| exact Ht].
Qed.

Theorem add_ge_hom m Pin l1 l2 lt b r1 r2 :
  add_ge m Pin l1 lt b = Ok r1 -> add_ge m Pin l2 lt b = Ok r2 -> bkind (kd m) -> ~ l1 == 0 -> ~ l2 == 0 ->
  res_hom (tm m) r1 r2 l1 l2.
Proof.
  intros H1 H2 Hk N1 N2. unfold add_ge in H1, H2. b1 H1 H2 P EP.
  destruct (qeq0 l1) eqn:Q1; [apply qeq0_spec in Q1; contradiction|].
  destruct (qeq0 l2) eqn:Q2; [apply qeq0_spec in Q2; contradiction|].
  set (m1 := append_constraint m RGe (tm P)) in *.
  assert (Hk1 : bkind (kd m1)) by exact Hk.
  destruct (get_bounds (tm P) b) as [lo hi]. b1 H1 H2 Pn EPn.
  destruct (add_le m1 (tm Pn) l1 lt (Some (- hi), Some (- lo))) as [[[m2 w2] t2]|] eqn:A1; cbn [bind] in H1; [|discriminate].
  destruct (add_le m1 (tm Pn) l2 lt (Some (- hi), Some (- lo))) as [[[m3 w3] t3]|] eqn:A2; cbn [bind] in H2; [|discriminate].
  injection H1 as <-. injection H2 as <-.
  destruct (add_le_hom _ _ _ _ _ _ _ _ A1 A2 Hk1 N1 N2) as (Hh & Hw & Ht).
  apply res_hom_intro; [apply hom_pop; exact Hh| exact Hw| exact Ht].
Qed.

Theorem add_ne_hom m Pin l1 l2 lt b r1 r2 :
  add_ne m Pin l1 lt b = Ok r1 -> add_ne m Pin l2 lt b = Ok r2 -> bkind (kd m) -> ~ l1 == 0 -> ~ l2 == 0 ->
  res_hom (tm m) r1 r2 l1 l2.
Proof.
  intros H1 H2 Hk N1 N2. unfold add_ne in H1, H2. b1 H1 H2 P EP.
  destruct (qeq0 l1) eqn:Q1; [apply qeq0_spec in Q1; contradiction|].
  destruct (qeq0 l2) eqn:Q2; [apply qeq0_spec in Q2; contradiction|].
  set (m1 := append_constraint m RNe (tm P)) in *.
  assert (Hk1 : bkind (kd m1)) by exact Hk.
  destruct (get_bounds (tm P) b) as [lo hi].
  destruct (qeq0 lo && qeq0 hi).
  { b2 H1 H2 a c A1 A2. injection H1 as <-. injection H2 as <-. apply res_hom_intro; auto.
    apply (hom_steps m1 a c l1 l2 (fun _ => l1) (fun _ => l2)).
    - eapply frame_frame2; eapply m_iadd_frame; eassumption.
    - intros x Hx. destruct (m_iadd_eval x _ _ _ A1 (bkind_env _ _ Hk1 Hx)) as [A _]. rewrite A. reflexivity.
    - intros x Hx. destruct (m_iadd_eval x _ _ _ A2 (bkind_env _ _ Hk1 Hx)) as [A _]. rewrite A. reflexivity.
    - intros x Hx. ring. }
  destruct (qgt0 lo). { injection H1 as <-. injection H2 as <-. apply res_hom_intro; auto. apply (hom_refl m1). }
  destruct (qlt0 hi). { injection H1 as <-. injection H2 as <-. apply res_hom_intro; auto. apply (hom_refl m1). }
  destruct (qeq0 lo).
  { destruct (add_gt m1 (tm P) l1 true (Some lo, Some hi)) as [[[m2 w2] t2]|] eqn:A1; cbn [bind] in H1; [|discriminate].
    destruct (add_gt m1 (tm P) l2 true (Some lo, Some hi)) as [[[m3 w3] t3]|] eqn:A2; cbn [bind] in H2; [|discriminate].
    injection H1 as <-. injection H2 as <-.
    destruct (add_gt_hom _ _ _ _ _ _ _ _ A1 A2 Hk1 N1 N2) as (Hh & Hw & Ht).
    apply res_hom_intro; [apply hom_pop; exact Hh| exact Hw| reflexivity]. }
  destruct (qeq0 hi).
  { destruct (add_lt m1 (tm P) l1 true (Some lo, Some hi)) as [[[m2 w2] t2]|] eqn:A1; cbn [bind] in H1; [|discriminate].
    destruct (add_lt m1 (tm P) l2 true (Some lo, Some hi)) as [[[m3 w3] t3]|] eqn:A2; cbn [bind] in H2; [|discriminate].
    injection H1 as <-. injection H2 as <-.
    destruct (add_lt_hom _ _ _ _ _ _ _ _ A1 A2 Hk1 N1 N2) as (Hh & Hw & Ht).
    apply res_hom_intro; [apply hom_pop; exact Hh| exact Hw| reflexivity]. }
  b1 H1 H2 Pc EPc. b1 H1 H2 S0 ES0. b1 H1 H2 P1 EP1. b1 H1 H2 n En. b1 H1 H2 q Eqq. destruct q as [[P2 lo2] hi2].
  match type of H1 with bind (add_eq ?mm _ _ _) _ = _ => set (m2 := mm) in H1, H2 end.
  destruct (add_eq m2 (tm P2) l1 (Some lo2, Some hi2)) as [[[m3 w3] t3]|] eqn:A1; cbn [bind] in H1; [|discriminate].
  destruct (add_eq m2 (tm P2) l2 (Some lo2, Some hi2)) as [[[m4 w4] t4]|] eqn:A2; cbn [bind] in H2; [|discriminate].
  injection H1 as <-. injection H2 as <-.
  assert (Hk2 : bkind (kd m2)) by exact Hk.
  destruct (add_eq_hom _ _ _ _ _ _ _ A1 A2 Hk2 N1 N2) as (Hh & _ & _).
  apply res_hom_intro; [apply hom_pop; exact Hh| reflexivity| reflexivity].
Qed.

Theorem add_constraint_hom r m Pin l1 l2 lt b r1 r2 :
  add_constraint r m Pin l1 lt b = Ok r1 -> add_constraint r m Pin l2 lt b = Ok r2 -> bkind (kd m) -> ~ l1 == 0 -> ~ l2 == 0 ->
  res_hom (tm m) r1 r2 l1 l2.
Proof.
  destruct r; unfold add_constraint; intros H1 H2 Hk N1 N2.
  - exact (add_eq_hom _ _ _ _ _ _ _ H1 H2 Hk N1 N2).
  - exact (add_ne_hom _ _ _ _ _ _ _ _ H1 H2 Hk N1 N2).
  - exact (add_lt_hom _ _ _ _ _ _ _ _ H1 H2 Hk N1 N2).
  - exact (add_le_hom _ _ _ _ _ _ _ _ H1 H2 Hk N1 N2).
  - exact (add_gt_hom _ _ _ _ _ _ _ _ H1 H2 Hk N1 N2).
  - exact (add_ge_hom _ _ _ _ _ _ _ _ H1 H2 Hk N1 N2).
Qed.

(* the sixteen logic methods: the polynomial does not involve lam *)
Theorem add_logic_hom g is_eq m ops l1 l2 r1 r2 :
  add_logic g is_eq m ops l1 = Ok r1 -> add_logic g is_eq m ops l2 = Ok r2 -> bkind (kd m) -> ~ l1 == 0 -> ~ l2 == 0 ->
  res_hom (tm m) r1 r2 l1 l2.
Proof.
  unfold add_logic. intros H1 H2 Hk N1 N2.
  destruct (ops_check ops) as [[]|]; cbn [bind] in H1, H2; [|discriminate].
  destruct (logic_poly g is_eq ops) as [[[P lo] hi]|] eqn:EP; cbn [bind] in H1, H2; [|discriminate].
  b1 H1 H2 Pm EPm. exact (add_eq_hom _ _ _ _ _ _ _ H1 H2 Hk N1 N2).
Qed.

(* ---- spin models: the same statement at every +1/-1 assignment ---- *)
Definition hom_S (t0 : terms) (a c : model) (l1 l2 : Q) : Prop :=
  frame2 a c /\ forall z, spin_env z -> l1 * (eval z (tm c) - eval z t0) == l2 * (eval z (tm a) - eval z t0).
Definition res_hom_S (t0 : terms) (r1 r2 : model * warn * tag) (l1 l2 : Q) : Prop :=
  let '(a, w1, t1) := r1 in let '(c, w2, t2) := r2 in hom_S t0 a c l1 l2 /\ w1 = w2 /\ t1 = t2.

Theorem pcso_add_hom r m Hin l1 l2 lt b r1 r2 :
  pcso_add r m Hin l1 lt b = Ok r1 -> pcso_add r m Hin l2 lt b = Ok r2 -> kd m = KPcso -> ~ l1 == 0 -> ~ l2 == 0 ->
  res_hom_S (tm m) r1 r2 l1 l2.
Proof.
  intros H1 H2 Hk N1 N2. unfold pcso_add in H1, H2. b1 H1 H2 H EH.
  set (m1 := append_constraint m r (tm H)) in *.
  destruct (qeq0 l1) eqn:Q1; [apply qeq0_spec in Q1; contradiction|].
  destruct (qeq0 l2) eqn:Q2; [apply qeq0_spec in Q2; contradiction|].
  b1 H1 H2 Pb EPb.
  set (m0 := with_anc empty_pcbo (anc m1)) in *.
  destruct (add_constraint r m0 (tm Pb) l1 lt b) as [[[h1 w1] t1]|] eqn:A1; cbn [bind] in H1; [|discriminate].
  destruct (add_constraint r m0 (tm Pb) l2 lt b) as [[[h2 w2] t2]|] eqn:A2; cbn [bind] in H2; [|discriminate].
  b2 H1 H2 S1 S2 ES1 ES2. b2 H1 H2 a c M1 M2. injection H1 as <-. injection H2 as <-.
  assert (Hk0 : bkind (kd m0)) by apply bkind_pcbo.
  destruct (add_constraint_hom _ _ _ _ _ _ _ _ _ A1 A2 Hk0 N1 N2) as (Hh & Hw & Ht).
  destruct Hh as [(_ & Fa & _) Hh]. simpl. split; [|split; assumption].
  destruct (m_iadd_frame _ _ _ M1) as (F1 & F2 & F3). destruct (m_iadd_frame _ _ _ M2) as (G1 & G2 & G3).
  simpl in F1, F2, F3, G1, G2, G3. split; [repeat split; congruence|].
  intros z Hz.
  destruct (m_iadd_eval z _ _ _ M1) as [E1 _]; [simpl; rewrite Hk; exact Hz|].
  destruct (m_iadd_eval z _ _ _ M2) as [E2 _]; [simpl; rewrite Hk; exact Hz|].
  destruct (pubo_to_puso_sound _ _ _ z ES1 Hz) as [V1 _]. destruct (pubo_to_puso_sound _ _ _ z ES2 Hz) as [V2 _].
  rewrite E1, E2. simpl. rewrite V1, V2. specialize (Hh (s2b z) (s2b_bool z Hz)). simpl in Hh. lra.
Qed.

Theorem add_constraint_affine r m Pin c lt b a w1 t1 mc w2 t2 :
  add_constraint r m Pin 1 lt b = Ok (a, w1, t1) -> add_constraint r m Pin c lt b = Ok (mc, w2, t2) -> bkind (kd m) -> ~ c == 0 ->
  (forall x, boolean_env x -> eval x (tm mc) == eval x (tm m) + c * (eval x (tm a) - eval x (tm m)))
  /\ kd mc = kd a /\ anc mc = anc a /\ cons mc = cons a /\ w2 = w1 /\ t2 = t1.
Proof.
  intros H1 H2 Hk Nc.
  assert (N1 : ~ 1 == 0) by discriminate.
  destruct (add_constraint_hom _ _ _ _ _ _ _ _ _ H1 H2 Hk N1 Nc) as (((F1 & F2 & F3) & Hh) & Hw & Ht).
  split; [|repeat split; congruence]. intros x Hx. specialize (Hh x Hx). lra.
Qed.
