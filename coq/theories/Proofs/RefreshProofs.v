(* refresh(): same function, exact bookkeeping *)
From QV.Model Require Import Base Matrix Arith.
From QV.Proofs Require Import BaseProofs KeyProofs ArithProofs TempRangeQ InvProofs.
From Coq Require Import Lia Lqa.
Open Scope Q_scope.

Definition ExactVars (m : model) : Prop :=
  forall i, In i (vars_c m) -> exists k v, In (k, v) (tm m) /\ In i k.
Definition ExactDeg (m : model) : Prop :=
  match deg_c m with
  | None => tm m = []
  | Some d => exists k v, In (k, v) (tm m) /\ length k = d
  end.
Definition Exact (m : model) : Prop := kd m <> KDict -> ExactVars m /\ ExactDeg m.

Lemma lookup_None_notin {V} k (d : list (key * V)) : ~ In k (map fst d) -> lookup k d = None.
Proof.
  induction d as [|[k2 v2] d IH]; simpl; [reflexivity|]. intros H.
  rewrite key_eqb_neq by (intros ->; apply H; left; reflexivity). apply IH. tauto.
Qed.
Lemma set_append {V} k (v : V) d : ~ In k (map fst d) -> set_ k v d = d ++ [(k, v)].
Proof.
  induction d as [|[k2 v2] d IH]; simpl; [reflexivity|]. intros H.
  rewrite key_eqb_neq by (intros ->; apply H; left; reflexivity). rewrite IH by tauto. reflexivity.
Qed.

(* adding a fresh canonical key with a non-zero value to an exact model *)
Lemma m_additem_fresh m k v m' :
  kd m <> KDict -> squash (kd m) k = Ok k -> ~ In k (map fst (tm m)) -> ~ v == 0 ->
  m_additem m k v = Ok m' ->
  tm m' = tm m ++ [(k, Qred (0 + v))] /\ vars_c m' = add_vars (vars_c m) k
  /\ deg_c m' = max_deg (deg_c m) (length k) /\ kd m' = kd m.
Proof.
  intros Hk Hsq Hnotin Hv H. unfold m_additem, m_getitem, getitem in H. rewrite Hsq in H. cbn [bind] in H.
  unfold get_sq in H. rewrite (lookup_None_notin _ _ Hnotin) in H.
  unfold m_setitem in H. rewrite Hsq in H. cbn [bind] in H.
  assert (Hz : qzero (0 + v) = false).
  { destruct (qzero (0 + v)) eqn:Hq; [|reflexivity]. apply qzero_spec in Hq. exfalso. apply Hv. rewrite <- Hq. ring. }
  assert (Hd : kind_eqb (kd m) KDict = false).
  { destruct (kind_eqb (kd m) KDict) eqn:Hq; [apply kind_eqb_eq in Hq; contradiction| reflexivity]. }
  rewrite Hz, Hd in H. cbn [negb andb] in H.
  destruct (if is_labelled (kd m) then _ else _) as [mp' nl']. injection H as <-. simpl.
  unfold set_sq. rewrite Hz. rewrite (set_append _ _ _ Hnotin). auto.
Qed.

Definition fresh_items (kd0 : kind) (d p : terms) : Prop :=
  NoDup (map fst p) /\ (forall k, In k (map fst p) -> ~ In k (map fst d))
  /\ forall k v, In (k, v) p -> squash kd0 k = Ok k /\ ~ v == 0.

Lemma m_addall_exact p : forall m m',
  kd m <> KDict -> Exact m -> fresh_items (kd m) (tm m) p -> m_addall m p = Ok m' -> Exact m' /\ kd m' = kd m.
Proof.
  induction p as [|[k v] p IH]; simpl; intros m m' Hk HE HF H.
  - injection H as <-. auto.
  - inv_bind H. destruct HF as (ND & DJ & CN). inversion ND as [|? ? Hkp ND']; subst.
    destruct (CN k v (or_introl eq_refl)) as [Hsq Hv].
    assert (Hnotin : ~ In k (map fst (tm m))) by (apply DJ; left; reflexivity).
    destruct (m_additem_fresh _ _ _ _ Hk Hsq Hnotin Hv E) as (T & V & D & K).
    assert (Hk' : kd a <> KDict) by congruence.
    assert (HE' : Exact a).
    { intros _. destruct (HE Hk) as [EV ED]. split.
      - intros i Hi. unfold ExactVars in *. rewrite V in Hi. apply add_vars_spec in Hi. rewrite T.
        destruct Hi as [Hi|Hi].
        + destruct (EV i Hi) as (k0 & v0 & Hin & Hik). exists k0, v0. split; [apply in_or_app; left; exact Hin| exact Hik].
        + exists k, (Qred (0 + v)). split; [apply in_or_app; right; left; reflexivity| exact Hi].
      - unfold ExactDeg in *. rewrite D, T. destruct (deg_c m) as [d|]; simpl.
        + destruct (Nat.max_spec d (length k)) as [[_ ->]|[_ ->]].
          * exists k, (Qred (0 + v)). split; [apply in_or_app; right; left; reflexivity| reflexivity].
          * destruct ED as (k0 & v0 & Hin & Hl). exists k0, v0. split; [apply in_or_app; left; exact Hin| exact Hl].
        + exists k, (Qred (0 + v)). split; [apply in_or_app; right; left; reflexivity| reflexivity]. }
    assert (HF' : fresh_items (kd a) (tm a) p).
    { rewrite K, T. split; [exact ND'|]. split.
      - intros k0 Hk0. rewrite map_app, in_app_iff. simpl. intros [Hx|[Hx|[]]].
        + apply (DJ k0 (or_intror Hk0)), Hx.
        + subst. contradiction.
      - intros k0 v0 Hin. apply CN. right. exact Hin. }
    destruct (IH _ _ Hk' HE' HF' H) as [A B]. split; [exact A| congruence].
Qed.

Lemma Exact_empty k : Exact (empty_model k).
Proof. intros _. split; [intros i []| reflexivity]. Qed.

Theorem m_refresh_exact e m m' : wf (kd m) (tm m) -> m_refresh m = Ok m' -> good_env (kd m) e ->
  eval e (tm m') == eval e (tm m) /\ kd m' = kd m /\ Exact m' /\ Inv m'.
Proof.
  intros Hwf H He. unfold m_refresh in H.
  destruct (m_copy_eval e _ _ H He) as [A B]. split; [exact A|]. split; [exact B|].
  split; [|eapply m_copy_Inv, H].
  unfold m_copy in H. inv_bind H. injection H as <-. intros Hk. simpl in Hk.
  unfold m_create in E.
  assert (Hk0 : kd (empty_model (kd m)) <> KDict) by (simpl; destruct (m_create_eval e _ _ _ E He); congruence).
  destruct (m_addall_exact (tm m) (empty_model (kd m)) a Hk0 (Exact_empty _)) as [HE _]; [|exact E|].
  - simpl. destruct Hwf as [ND CN]. split; [exact ND|]. split; [intros k _ []| exact CN].
  - apply HE. exact Hk.
Qed.
