(* C18: subvalue / subgraph / normalize preserve the represented function *)
From QV.Model Require Import Base Matrix Arith Extrema SubNorm.
From QV.Proofs Require Import BaseProofs KeyProofs ArithProofs TempRangeQ InvProofs RefreshProofs.
From Coq Require Import Lia Lqa Qfield Qminmax.
Open Scope Q_scope.

(* the assignment extended by the substituted values *)
Definition override (e : env) (keep : label -> bool) (vs : vals) (dflt : Q) : env :=
  fun i => if keep i then e i else match vget i vs with Some v => v | None => dflt end.

Lemma mon_split e (p : label -> bool) k :
  mon e k == mon e (filter p k) * mon e (filter (fun i => negb (p i)) k).
Proof.
  induction k as [|i k IH]; simpl; [ring|]. destruct (p i); simpl; rewrite IH; ring.
Qed.

Lemma mon_override_keep e keep vs dflt k :
  mon (override e keep vs dflt) (filter keep k) == mon e (filter keep k).
Proof.
  induction k as [|i k IH]; simpl; [reflexivity|]. destruct (keep i) eqn:E; simpl; [|exact IH].
  unfold override at 1. rewrite E, IH. reflexivity.
Qed.
Lemma mon_override_drop e keep vs dflt k :
  mon (override e keep vs dflt) (filter (fun i => negb (keep i)) k)
  == prod_vals vs dflt (filter (fun i => negb (keep i)) k).
Proof.
  induction k as [|i k IH]; simpl; [reflexivity|]. destruct (keep i) eqn:E; simpl; [exact IH|].
  unfold override at 1. rewrite E, IH. reflexivity.
Qed.

(* keys that stay canonical when labels are dropped *)
Lemma filter_lb x p k : lb x k -> ssorted k -> lb x (filter p k).
Proof.
  induction k as [|y k IH]; simpl; [tauto|]. intros Hl [Hy Hs]. destruct (p y); simpl; [exact Hl|].
  apply IH; [|exact Hs]. destruct k as [|z k]; simpl in *; [exact I| lia].
Qed.
Lemma filter_ssorted p k : ssorted k -> ssorted (filter p k).
Proof.
  induction k as [|y k IH]; simpl; [tauto|]. intros [Hl Hs]. destruct (p y); simpl; [|apply IH, Hs].
  split; [apply filter_lb; assumption| apply IH, Hs].
Qed.
Lemma filter_length_le {A} (p : A -> bool) l : (length (filter p l) <= length l)%nat.
Proof. induction l as [|a l IH]; simpl; [lia|]. destruct (p a); simpl; lia. Qed.

Lemma squash_filter kd0 p k : squash kd0 k = Ok k -> squash kd0 (filter p k) = Ok (filter p k).
Proof.
  intros H. destruct (kind_eqb kd0 KDict) eqn:Ek.
  - apply kind_eqb_eq in Ek. subst. reflexivity.
  - assert (Hn : kd0 <> KDict) by (intros ->; discriminate).
    pose proof (squash_kd_ssorted _ _ _ Hn H) as Hs. pose proof (filter_ssorted p k Hs) as Hf.
    unfold squash in *. destruct kd0; simpl in *; try congruence;
      try (destruct (2 <? length _)%nat eqn:Hl; [discriminate|]; apply Nat.ltb_ge in Hl);
      rewrite ?(squashB_fix _ Hf), ?(squashS_fix _ Hf);
      try (assert ((2 <? length (filter p k))%nat = false) as -> by
             (apply Nat.ltb_ge; injection H as H; rewrite H in Hl; pose proof (filter_length_le p k); lia));
      reflexivity.
Qed.

Definition skipped (skip_const : bool) (G : terms) : terms :=
  if skip_const then filter (fun '(k, _) => match k with [] => false | _ => true end) G else G.

Lemma sub_loop_eval e keep vs dflt sc G : forall m m',
  (forall k v, In (k, v) G -> squash (kd m) k = Ok k) ->
  sub_loop m G keep vs dflt sc = Ok m' ->
  eval e (tm m') == eval e (tm m) + eval (override e keep vs dflt) (skipped sc G) /\ kd m' = kd m.
Proof.
  induction G as [|[k v] G IH]; simpl; intros m m' Hc H.
  - injection H as <-. split; [destruct sc; simpl; ring| reflexivity].
  - assert (Hc' : forall k0 v0, In (k0, v0) G -> squash (kd m) k0 = Ok k0) by (intros k0 v0 Hin; eapply Hc; right; exact Hin).
    destruct (sc && match k with [] => true | _ => false end) eqn:Hs.
    + destruct (IH _ _ Hc' H) as [A B]. split; [|exact B]. rewrite A.
      apply andb_true_iff in Hs. destruct Hs as [-> Hk]. simpl. destruct k; [reflexivity| discriminate].
    + inv_bind H. apply m_additem_spec in E. destruct E as (k' & Hk & Ht & Hkd).
      rewrite (squash_filter _ keep k (Hc k v (or_introl eq_refl))) in Hk. injection Hk as <-.
      assert (Hc'' : forall k0 v0, In (k0, v0) G -> squash (kd a) k0 = Ok k0) by (rewrite Hkd; exact Hc').
      destruct (IH _ _ Hc'' H) as [A B]. split; [|congruence]. rewrite A, Ht, eval_set_sq.
      assert (Hsk : eval (override e keep vs dflt) (skipped sc ((k, v) :: G))
                    == v * mon (override e keep vs dflt) k + eval (override e keep vs dflt) (skipped sc G)).
      { destruct sc; simpl; [|reflexivity]. simpl in Hs. destruct k; [discriminate| reflexivity]. }
      rewrite Hsk, (mon_split (override e keep vs dflt) keep k), mon_override_keep, mon_override_drop. ring.
Qed.

Theorem subvalue_sound e kd0 values G D :
  (forall k v, In (k, v) G -> squash kd0 k = Ok k) -> subvalue kd0 values G = Ok D ->
  eval e (tm D) == eval (override e (fun i => negb (in_dom values i)) values 0) G /\ kd D = kd0.
Proof.
  unfold subvalue. intros Hc H. destruct (sub_loop_eval e _ _ _ _ _ (empty_model kd0) _ Hc H) as [A B].
  split; [|exact B]. rewrite A. simpl. ring.
Qed.

Theorem subgraph_sound e kd0 nodes conn G D :
  (forall k v, In (k, v) G -> squash kd0 k = Ok k) -> subgraph kd0 nodes conn G = Ok D ->
  eval e (tm D) == eval (override e (fun i => mem i nodes) conn 0) (skipped true G) /\ kd D = kd0.
Proof.
  unfold subgraph. intros Hc H. destruct (sub_loop_eval e _ _ _ _ _ (empty_model kd0) _ Hc H) as [A B].
  split; [|exact B]. rewrite A. simpl. ring.
Qed.

(* the extended assignment: substituted labels take their substituted value, the others are untouched *)
Lemma override_spec e keep vs dflt i :
  (keep i = true -> override e keep vs dflt i = e i) /\
  (keep i = false -> override e keep vs dflt i = match vget i vs with Some v => v | None => dflt end).
Proof. unfold override. split; intros ->; reflexivity. Qed.

(* ---- normalize ---- *)
Lemma m_update_fresh_eval e o : forall m m',
  NoDup (map fst o) -> (forall k, In k (map fst o) -> ~ In k (map fst (tm m)) /\ squash (kd m) k = Ok k) ->
  m_update m o = Ok m' ->
  eval e (tm m') == eval e (tm m) + eval e o /\ kd m' = kd m.
Proof.
  induction o as [|[k v] o IH]; simpl; intros m m' Hnd Hf H.
  - injection H as <-. split; [ring|reflexivity].
  - inversion Hnd as [|? ? Hk Hnd']; subst. inv_bind H. apply m_setitem_spec in E.
    destruct E as (k' & Hsq & Ht & Hkd & _). destruct (Hf k (or_introl eq_refl)) as [Hnotin Hcan].
    rewrite Hcan in Hsq. injection Hsq as <-.
    assert (Hf' : forall k0, In k0 (map fst o) -> ~ In k0 (map fst (tm a)) /\ squash (kd a) k0 = Ok k0).
    { intros k0 H0. destruct (Hf k0 (or_intror H0)) as [A B]. rewrite Hkd. split; [|exact B].
      rewrite Ht. unfold set_sq. destruct (qzero v).
      - intros Hin. apply A. apply in_map_iff in Hin. destruct Hin as ([k1 v1] & <- & Hin).
        apply remove_keys_incl in Hin. apply in_map_iff. exists (k1, v1). auto.
      - destruct (set_keys k (Qred v) (tm m)) as [->|[_ ->]]; [exact A|].
        rewrite in_app_iff. simpl. intros [Hx|[<-|[]]]; [contradiction| contradiction]. }
    destruct (IH _ _ Hnd' Hf' H) as [A B]. split; [|congruence].
    rewrite A, Ht, eval_set_sq. unfold get_sq. rewrite (lookup_None_notin _ _ Hnotin). ring.
Qed.

Lemma eval_map_coef e c (D : terms) : eval e (map (fun '(k, v) => (k, c * v)) D) == c * eval e D.
Proof. induction D as [|[k v] D IH]; simpl; [ring| rewrite IH; ring]. Qed.

Theorem normalize_sound e kd0 D value R : wf kd0 D -> normalize kd0 D value = Ok R ->
  exists M, max_abs D = Some M /\ ~ M == 0 /\ eval e (tm R) == (value / M) * eval e D /\ kd R = kd0.
Proof.
  unfold normalize. intros [Hnd Hc] H. destruct (max_abs D) as [M|]; [|discriminate].
  destruct (qzero M) eqn:Hz; [discriminate|]. exists M. split; [reflexivity|].
  split; [intros HM; apply qzero_spec in HM; congruence|].
  assert (Hk : map fst (map (fun '(k, v) => (k, value / M * v)) D) = map fst D).
  { rewrite map_map. apply map_ext. intros [k v]. reflexivity. }
  destruct (m_update_fresh_eval e (map (fun '(k, v) => (k, value / M * v)) D) (empty_model kd0) R) as [A B]; [rewrite Hk; exact Hnd| |exact H|].
  - rewrite Hk. intros k Hin. simpl. split; [tauto|]. apply in_map_iff in Hin. destruct Hin as ([k' v] & <- & Hin).
    apply (Hc _ _ Hin).
  - split; [|exact B]. rewrite A, eval_map_coef. simpl. ring.
Qed.

Theorem normalize_method_sound e m value m' : wf (kd m) (tm m) -> normalize_method m value = Ok m' ->
  (tm m = [] /\ m' = m) \/
  exists M, max_abs (tm m) = Some M /\ ~ M == 0 /\ eval e (tm m') == (value / M) * eval e (tm m) /\ kd m' = kd m.
Proof.
  unfold normalize_method. intros Hwf H. destruct (max_abs (tm m)) as [M|] eqn:HM.
  - right. destruct (qzero M) eqn:Hz; [discriminate|]. exists M. split; [reflexivity|].
    split; [intros HM0; apply qzero_spec in HM0; congruence|].
    destruct (m_scale_eval e _ _ _ Hwf H) as [A B]. split; [exact A| exact B].
  - left. injection H as <-. split; [|reflexivity]. unfold max_abs in HM. destruct (tm m); [reflexivity| discriminate].
Qed.

(* the scaled coefficients: the largest magnitude equals |value| *)
Lemma qmax_list_in l m : qmax_list l = Some m -> In m l.
Proof.
  destruct l as [|x l]; simpl; [discriminate|]. intros [= <-]. revert x. induction l as [|y l IH]; simpl; intros x; [left; reflexivity|].
  destruct (IH (Qmax x y)) as [H|H]; [|right; right; exact H].
  rewrite <- H. unfold Qmax, GenericMinMax.gmax. destruct (x ?= y); auto.
Qed.

Theorem normalize_max D value M : max_abs D = Some M -> ~ M == 0 ->
  forall M', qmax_list (map (fun '(_, v) => Qabs (value / M * v)) D) = Some M' -> M' == Qabs value.
Proof.
  unfold max_abs. intros HM Hnz M' HM'.
  assert (HMpos : 0 < M).
  { pose proof (qmax_list_in _ _ HM) as Hin. apply in_map_iff in Hin. destruct Hin as ([k v] & <- & _).
    pose proof (Qabs_nonneg v). destruct (Qlt_le_dec 0 (Qabs v)); [assumption|]. exfalso. apply Hnz. lra. }
  assert (Hscale : forall v, Qabs (value / M * v) == Qabs value / M * Qabs v).
  { intros v. rewrite Qabs_Qmult. unfold Qdiv. rewrite Qabs_Qmult. rewrite (Qabs_pos (/ M)); [reflexivity|].
    apply Qlt_le_weak, Qinv_lt_0_compat, HMpos. }
  assert (Hinv : 0 < / M) by (apply Qinv_lt_0_compat, HMpos).
  assert (Hone : / M * M == 1) by (field; lra).
  pose proof (Qabs_nonneg value) as Hva.
  apply Qle_antisym.
  - pose proof (qmax_list_in _ _ HM') as Hin. apply in_map_iff in Hin. destruct Hin as ([k v] & <- & Hin).
    rewrite Hscale. assert (Hv : Qabs v <= M).
    { eapply qmax_list_ge; [exact HM|]. apply in_map_iff. exists (k, v). auto. }
    pose proof (Qabs_nonneg v) as Hv0. unfold Qdiv.
    assert (Hp : 0 <= Qabs value * / M) by (apply Qmult_le_0_compat; lra).
    assert (Hq : Qabs value * / M * Qabs v <= Qabs value * / M * M) by (rewrite !(Qmult_comm (Qabs value * / M)); apply Qmult_le_compat_r; [exact Hv| exact Hp]).
    eapply Qle_trans; [exact Hq|]. rewrite <- Qmult_assoc, Hone. lra.
  - pose proof (qmax_list_in _ _ HM) as Hin. apply in_map_iff in Hin. destruct Hin as ([k v] & Hv & Hin).
    assert (H : Qabs (value / M * v) <= M').
    { eapply qmax_list_ge; [exact HM'|]. apply in_map_iff. exists (k, v). auto. }
    rewrite Hscale, Hv in H. eapply Qle_trans; [|exact H]. unfold Qdiv. rewrite <- Qmult_assoc, Hone. lra.
Qed.
