(* C14: the bookkeeping invariant also survives the constraint methods of PCBO / PCSO (they are edits of the model too) *)
From QV.Model Require Import Base Matrix Arith Expr Extrema Sat PCBO Convert PCSO.
From QV.Proofs Require Import BaseProofs KeyProofs ArithProofs InvProofs PCBOProofs AncProofs.
Open Scope Q_scope.

Lemma Inv_with_anc m a : Inv m -> Inv (with_anc m a).
Proof. intros H. eapply Inv_ext; [..|exact H]; reflexivity. Qed.
Lemma Inv_append m r P : Inv m -> Inv (append_constraint m r P).
Proof. intros H. eapply Inv_ext; [..|exact H]; reflexivity. Qed.
Lemma Inv_pop m r : Inv m -> Inv (pop_constraint m r).
Proof. intros H. eapply Inv_ext; [..|exact H]; reflexivity. Qed.
Lemma iadd_m_Inv m X m' : iadd_m m X = Ok m' -> Inv m -> Inv m'.
Proof. intros H HI. exact (m_iadd_Inv m (OModel X) m' HI H). Qed.
Lemma isub_m_Inv m X m' : isub_m m X = Ok m' -> Inv m -> Inv m'.
Proof. intros H HI. exact (m_isub_Inv m (OModel X) m' HI H). Qed.

Lemma core_Inv m Pm lam b m' w t : eq_zero_core m Pm lam b = Ok (m', w, t) -> Inv m -> Inv m'.
Proof.
  intros H HI. unfold eq_zero_core in H. destruct (get_bounds (tm Pm) b) as [lo hi].
  destruct (qeq0 lo && qeq0 hi); [injection H as <- _ _; exact HI|].
  destruct (qgt0 lo). { b0 H X E. b0 H a A. injection H as <- _ _. eapply iadd_m_Inv; eassumption. }
  destruct (qlt0 hi). { b0 H X E. b0 H a A. injection H as <- _ _. eapply isub_m_Inv; eassumption. }
  destruct (qeq0 lo). { b0 H X E. b0 H a A. injection H as <- _ _. eapply iadd_m_Inv; eassumption. }
  destruct (qeq0 hi). { b0 H X E. b0 H a A. injection H as <- _ _. eapply isub_m_Inv; eassumption. }
  b0 H X E. b0 H a A. injection H as <- _ _. eapply iadd_m_Inv; eassumption.
Qed.

Lemma special_eq_Inv m Pm lam r : special_eq m Pm lam = Ok r -> Inv m -> match r with Some m' => Inv m' | None => True end.
Proof.
  intros H HI. unfold special_eq in H.
  destruct (tm Pm) as [|[k0 v0] [|[k1 v1] [|? ?]]]; try (injection H as <-; exact I).
  destruct (qeq0 _ && Nat.eqb _ 3 && Qeq_bool v0 (- v1)); [|injection H as <-; exact I].
  destruct k0 as [|a0 [|b0 [|? ?]]], k1 as [|a1 [|b1 [|? ?]]]; try (injection H as <-; exact I).
  - b0 H G EG. b0 H G' EG'.
    destruct (eq_zero_core empty_pcbo G' lam (Some 0, Some 3)) as [[[tmp w0] t0]|] eqn:EC; cbn [bind] in H; [|discriminate].
    b0 H m2 EA. injection H as <-. eapply iadd_m_Inv; eassumption.
  - b0 H G EG. b0 H G' EG'.
    destruct (eq_zero_core empty_pcbo G' lam (Some 0, Some 3)) as [[[tmp w0] t0]|] eqn:EC; cbn [bind] in H; [|discriminate].
    b0 H m2 EA. injection H as <-. eapply iadd_m_Inv; eassumption.
Qed.

Lemma add_eq_Inv m Pin lam b m' w t : add_eq m Pin lam b = Ok (m', w, t) -> Inv m -> Inv m'.
Proof.
  intros H HI. unfold add_eq in H. b0 H Pm EP.
  destruct (qeq0 lam); [injection H as <- _ _; apply Inv_append, HI|].
  set (m1 := append_constraint m REq (tm Pm)) in *. assert (H1 : Inv m1) by apply Inv_append, HI.
  b0 H s ES. pose proof (special_eq_Inv m1 Pm lam s ES H1) as Hs.
  destruct s as [m2|]; [injection H as <- _ _; exact Hs|]. eapply core_Inv; eassumption.
Qed.

Lemma special_le_Inv m Pm lam lt lo hi r : special_le m Pm lam lt lo hi = Ok r -> Inv m ->
  match r with Some (m', _) => Inv m' | None => True end.
Proof.
  intros H HI. unfold special_le in H. b0 H Pwo EW.
  destruct (Qeq_bool _ (-(1)) && forallb (fun '(_, v) => Qeq_bool v 1) (tm Pwo)).
  { b0 H X EX. b0 H m2 EA. injection H as <-. eapply iadd_m_Inv; eassumption. }
  destruct (negb lt && qeq0 _ && negb (qgt0 _) && negb (qeq0 lo)).
  { b0 H n En. b0 H ancs Ea. b0 H diff Ed. b0 H X EX. b0 H m2 EA. injection H as <-.
    eapply iadd_m_Inv; [exact EA| apply Inv_with_anc, HI]. }
  destruct (Qeq_bool _ 1 && Nat.eqb (length (tm Pwo)) 2 && forallb (fun '(_, v) => Qeq_bool v (-(1))) (tm Pwo)).
  { destruct (tm Pwo) as [|[k0 v0] [|[k1 v1] [|? ?]]]; try (injection H as <-; exact I).
    b0 H P2 EP2. b0 H P2' EP2'.
    destruct (eq_zero_core empty_pcbo P2' lam (Some 0, Some 1)) as [[[tmp w0] t0]|] eqn:EC; cbn [bind] in H; [|discriminate].
    b0 H m2 EA. injection H as <-. eapply iadd_m_Inv; eassumption. }
  destruct (qeq0 _ && Nat.eqb (length (tm Pm)) 2 && _); [|injection H as <-; exact I].
  destruct (tm Pm) as [|[k0 v0] [|[k1 v1] [|? ?]]]; try (injection H as <-; exact I).
  destruct (if Qeq_bool v0 1 then (k0, k1) else (k1, k0)) as [kp kn].
  b0 H X EX. b0 H m2 EA. injection H as <-. eapply iadd_m_Inv; eassumption.
Qed.

Lemma add_le_Inv m Pin lam lt b m' w t : add_le m Pin lam lt b = Ok (m', w, t) -> Inv m -> Inv m'.
Proof.
  intros H HI. unfold add_le in H. b0 H Pm EP.
  destruct (qeq0 lam); [injection H as <- _ _; apply Inv_append, HI|].
  set (m1 := append_constraint m RLe (tm Pm)) in *. assert (H1 : Inv m1) by apply Inv_append, HI.
  destruct (get_bounds (tm Pm) b) as [lo hi].
  b0 H s ES. pose proof (special_le_Inv m1 Pm lam lt lo hi s ES H1) as Hs.
  destruct s as [[m2 t2]|]; [injection H as <- _ _; exact Hs|].
  destruct (qgt0 lo). { b0 H X EX. b0 H a A. injection H as <- _ _. eapply iadd_m_Inv; eassumption. }
  destruct (negb (qgt0 hi)); [injection H as <- _ _; exact H1|].
  b0 H Pc EPc. b0 H q Eqq. destruct q as [[Ps hi'] n].
  destruct (add_eq (with_anc m1 (anc m1 + n)) (tm Ps) lam (Some lo, Some hi')) as [[[m3 w3] t3]|] eqn:A1; cbn [bind] in H; [|discriminate].
  injection H as <- _ _. apply Inv_pop. eapply add_eq_Inv; [exact A1| apply Inv_with_anc, H1].
Qed.
Lemma add_lt_Inv m Pin lam lt b m' w t : add_lt m Pin lam lt b = Ok (m', w, t) -> Inv m -> Inv m'.
Proof.
  intros H HI. unfold add_lt in H. b0 H Pm EP.
  destruct (qeq0 lam); [injection H as <- _ _; apply Inv_append, HI|].
  set (m1 := append_constraint m RLt (tm Pm)) in *. assert (H1 : Inv m1) by apply Inv_append, HI.
  destruct (get_bounds (tm Pm) b) as [lo hi].
  destruct (negb (qlt0 lo)). { b0 H X EX. b0 H a A. injection H as <- _ _. eapply iadd_m_Inv; eassumption. }
  destruct (qlt0 hi); [injection H as <- _ _; exact H1|].
  b0 H P1 EP1.
  destruct (add_le m1 (tm P1) lam lt (Some (lo + 1), Some (hi + 1))) as [[[m2 w2] t2]|] eqn:A1; cbn [bind] in H; [|discriminate].
  injection H as <- _ _. apply Inv_pop. eapply add_le_Inv; eassumption.
Qed.
Lemma add_gt_Inv m Pin lam lt b m' w t : add_gt m Pin lam lt b = Ok (m', w, t) -> Inv m -> Inv m'.
Proof.
  intros H HI. unfold add_gt in H. b0 H Pm EP.
  destruct (qeq0 lam); [injection H as <- _ _; apply Inv_append, HI|].
  set (m1 := append_constraint m RGt (tm Pm)) in *. assert (H1 : Inv m1) by apply Inv_append, HI.
  destruct (get_bounds (tm Pm) b) as [lo hi]. b0 H Pn EPn.
  destruct (add_lt m1 (tm Pn) lam lt (Some (- hi), Some (- lo))) as [[[m2 w2] t2]|] eqn:A1; cbn [bind] in H; [|discriminate].
  injection H as <- _ _. apply Inv_pop. eapply add_lt_Inv; eassumption.
Qed.
Lemma add_ge_Inv m Pin lam lt b m' w t : add_ge m Pin lam lt b = Ok (m', w, t) -> Inv m -> Inv m'.
Proof.
  intros H HI. unfold add_ge in H. b0 H Pm EP.
  destruct (qeq0 lam); [injection H as <- _ _; apply Inv_append, HI|].
  set (m1 := append_constraint m RGe (tm Pm)) in *. assert (H1 : Inv m1) by apply Inv_append, HI.
  destruct (get_bounds (tm Pm) b) as [lo hi]. b0 H Pn EPn.
  destruct (add_le m1 (tm Pn) lam lt (Some (- hi), Some (- lo))) as [[[m2 w2] t2]|] eqn:A1; cbn [bind] in H; [|discriminate].
  injection H as <- _ _. apply Inv_pop. eapply add_le_Inv; eassumption.
Qed.
Lemma add_ne_Inv m Pin lam lt b m' w t : add_ne m Pin lam lt b = Ok (m', w, t) -> Inv m -> Inv m'.
Proof.
  intros H HI. unfold add_ne in H. b0 H Pm EP.
  destruct (qeq0 lam); [injection H as <- _ _; apply Inv_append, HI|].
  set (m1 := append_constraint m RNe (tm Pm)) in *. assert (H1 : Inv m1) by apply Inv_append, HI.
  destruct (get_bounds (tm Pm) b) as [lo hi].
  destruct (qeq0 lo && qeq0 hi). { b0 H a A. injection H as <- _ _. eapply m_iadd_Inv; eassumption. }
  destruct (qgt0 lo); [injection H as <- _ _; exact H1|].
  destruct (qlt0 hi); [injection H as <- _ _; exact H1|].
  destruct (qeq0 lo).
  { destruct (add_gt m1 (tm Pm) lam true (Some lo, Some hi)) as [[[m2 w2] t2]|] eqn:A1; cbn [bind] in H; [|discriminate].
    injection H as <- _ _. apply Inv_pop. eapply add_gt_Inv; eassumption. }
  destruct (qeq0 hi).
  { destruct (add_lt m1 (tm Pm) lam true (Some lo, Some hi)) as [[[m2 w2] t2]|] eqn:A1; cbn [bind] in H; [|discriminate].
    injection H as <- _ _. apply Inv_pop. eapply add_lt_Inv; eassumption. }
  b0 H Pc EPc. b0 H S0 ES0. b0 H P1 EP1. b0 H n En. b0 H q Eqq. destruct q as [[P2 lo2] hi2].
  match type of H with bind (add_eq ?mm _ _ _) _ = _ => set (m2 := mm) in H end.
  destruct (add_eq m2 (tm P2) lam (Some lo2, Some hi2)) as [[[m3 w3] t3]|] eqn:A1; cbn [bind] in H; [|discriminate].
  injection H as <- _ _. apply Inv_pop. eapply add_eq_Inv; [exact A1| apply Inv_with_anc, H1].
Qed.

Theorem add_constraint_Inv r m Pin lam lt b m' w t : add_constraint r m Pin lam lt b = Ok (m', w, t) -> Inv m -> Inv m'.
Proof.
  destruct r; unfold add_constraint; intros H HI.
  - exact (add_eq_Inv _ _ _ _ _ _ _ H HI).
  - exact (add_ne_Inv _ _ _ _ _ _ _ _ H HI).
  - exact (add_lt_Inv _ _ _ _ _ _ _ _ H HI).
  - exact (add_le_Inv _ _ _ _ _ _ _ _ H HI).
  - exact (add_gt_Inv _ _ _ _ _ _ _ _ H HI).
  - exact (add_ge_Inv _ _ _ _ _ _ _ _ H HI).
Qed.
Theorem pcso_add_Inv r m Hin lam lt b m' w t : pcso_add r m Hin lam lt b = Ok (m', w, t) -> Inv m -> Inv m'.
Proof.
  intros H HI. unfold pcso_add in H. b0 H Hs EH.
  destruct (qeq0 lam); [injection H as <- _ _; apply Inv_append, HI|].
  b0 H Pb EPb.
  destruct (add_constraint r _ (tm Pb) lam lt b) as [[[h w'] t']|] eqn:EA; cbn [bind] in H; [|discriminate].
  b0 H Sp ES. b0 H m2 EMi. injection H as <- _ _.
  eapply m_iadd_Inv; [|exact EMi]. apply Inv_with_anc, Inv_append, HI.
Qed.

(* the edits of C14 together with the constraint methods *)
Inductive hedit := HE (e : edit) | HC (r : rel) (P : terms) (lam : Q) (lt : bool) (b : bounds).
Definition apply_hedit (m : model) (h : hedit) : result model :=
  match h with
  | HE e => apply_edit m e
  | HC r P lam lt b =>
      match (match kd m with KPcso => pcso_add r m P lam lt b | _ => add_constraint r m P lam lt b end) with
      | Ok (m', _, _) => Ok m'
      | Err x => Err x
      end
  end.
Fixpoint run_hedits (m : model) (es : list hedit) : result model :=
  match es with [] => Ok m | e :: es' => bind (apply_hedit m e) (fun m' => run_hedits m' es') end.
Theorem apply_hedit_Inv m h m' : Inv m -> apply_hedit m h = Ok m' -> Inv m'.
Proof.
  destruct h as [e|r P lam lt b]; cbn [apply_hedit]; intros HI H; [eapply apply_edit_Inv; eassumption|].
  destruct (kd m) eqn:Ek;
    match type of H with (match ?c with _ => _ end) = _ => destruct c as [[[m1 w] t]|] eqn:E; [|discriminate] end;
    injection H as <-; first [eapply pcso_add_Inv; eassumption | eapply add_constraint_Inv; eassumption].
Qed.
Theorem run_hedits_Inv es : forall m m', Inv m -> run_hedits m es = Ok m' -> Inv m'.
Proof.
  induction es as [|e es IH]; simpl; intros m m' HI H; [injection H as <-; exact HI|].
  destruct (apply_hedit m e) as [m1|] eqn:E; cbn [bind] in H; [|discriminate].
  eapply IH; [|exact H]. eapply apply_hedit_Inv; eassumption.
Qed.
