(* C10: problem classes.  NumberPartitioning and VertexCover: what the produced QUSO / QUBO computes, and that with
   admissible weights every ground state is a feasible optimal solution. *)
From QV.Model Require Import Base Matrix Arith Expr Extrema Sat PCBO Logic Convert PCSO Problems.
From QV.Proofs Require Import BaseProofs KeyProofs ArithProofs ExprProofs InvProofs RefreshProofs SatProofs PenaltyArith PCBOProofs LogicProofs.
From Coq Require Import Lia Lqa.
Open Scope Q_scope.

(* ================= NumberPartitioning ================= *)
Definition np_terms (S : list Q) : terms := map (fun '(i, s) => ([i], s)) (combine (seq 0 (length S)) S).
(* sum_i s_i z_i *)
Definition np_diff (S : list Q) (z : env) : Q := eval z (np_terms S).

Theorem np_value S A H : np_to_quso S A = Ok H -> forall z, spin_env z -> eval z (tm H) == A * np_diff S z * np_diff S z.
Proof.
  unfold np_to_quso. intros HH z Hz.
  destruct (ev_sound z _ _ HH) as [E _]; [simpl; repeat split; try exact I; exact Hz|].
  rewrite E. simpl. reflexivity.
Qed.

(* with A > 0: if the numbers can be split evenly, every ground state is an even split and the ground energy is 0;
   in general the ground states are exactly the splits of least |difference| *)
Theorem np_ground S A H z : np_to_quso S A = Ok H -> 0 < A -> spin_env z ->
  (forall z', spin_env z' -> eval z (tm H) <= eval z' (tm H)) ->
  forall z', spin_env z' -> np_diff S z * np_diff S z <= np_diff S z' * np_diff S z'.
Proof.
  intros HH HA Hz Hmin z' Hz'. specialize (Hmin z' Hz').
  rewrite (np_value S A H HH z Hz), (np_value S A H HH z' Hz') in Hmin.
  rewrite <- !Qmult_assoc in Hmin. apply (Qmult_le_l _ _ A HA). exact Hmin.
Qed.
Theorem np_ground_even S A H z z0 : np_to_quso S A = Ok H -> 0 < A -> spin_env z ->
  (forall z', spin_env z' -> eval z (tm H) <= eval z' (tm H)) ->
  spin_env z0 -> np_diff S z0 == 0 -> np_diff S z == 0 /\ eval z (tm H) == 0.
Proof.
  intros HH HA Hz Hmin Hz0 H0. pose proof (np_ground S A H z HH HA Hz Hmin z0 Hz0) as G. rewrite H0 in G.
  assert (Hsq : np_diff S z * np_diff S z == 0) by (pose proof (sq_nonneg (np_diff S z)); lra).
  assert (Hd : np_diff S z == 0) by (destruct (Qmult_integral _ _ Hsq); assumption).
  split; [exact Hd|]. rewrite (np_value S A H HH z Hz), Hd. ring.
Qed.

(* is_solution_valid: the two sides have equal sums exactly when the signed sum vanishes *)
Fixpoint sumq (l : list Q) : Q := match l with [] => 0 | x :: l' => x + sumq l' end.
Lemma fold_qplus l : forall a, fold_left Qplus l a == a + sumq l.
Proof. induction l as [|x l IH]; intros a; simpl; [ring|]. rewrite IH. ring. Qed.
Lemma np_sides (z : label -> Z) (l : list (nat * Q)) : (forall i, z i = 1%Z \/ z i = (-1)%Z) ->
  sumq (map (fun '(i, s) => if (z i =? 1)%Z then s else 0) l) - sumq (map (fun '(i, s) => if (z i =? 1)%Z then 0 else s) l)
  == eval (fun i => inject_Z (z i)) (map (fun '(i, s) => ([i], s)) l).
Proof.
  intros Hz. induction l as [|[i s] l IH]; [simpl; ring|]. cbn [map sumq eval mon].
  destruct (Hz i) as [E|E]; rewrite !E; simpl; unfold inject_Z at 1; lra.
Qed.
Theorem np_valid_iff S (z : label -> Z) : (forall i, z i = 1%Z \/ z i = (-1)%Z) ->
  np_valid S z = true <-> np_diff S (fun i => inject_Z (z i)) == 0.
Proof.
  intros Hz. unfold np_valid, np_diff, np_terms. rewrite Qeq_bool_iff, !fold_qplus.
  pose proof (np_sides z (combine (seq 0 (length S)) S) Hz) as E. split; intros H; lra.
Qed.

(* ================= VertexCover ================= *)
Definition covered (x : env) (e : nat * nat) : Prop := x (fst e) == 1 \/ x (snd e) == 1.
Definition pen_ok (e : nat * nat) (G : env -> Q) : Prop :=
  forall x, boolean_env x -> 0 <= G x /\ (covered x e -> G x == 0) /\ (~ covered x e -> 1 <= G x).
Fixpoint sum_pens (Gs : list (env -> Q)) (x : env) : Q := match Gs with [] => 0 | G :: Gs' => G x + sum_pens Gs' x end.
Definition size (N : nat) (x : env) : Q := eval x (map (fun i : label => ([i], 1)) (seq 0 N)).

Lemma b2q_truth_lbl x l : boolean_env x -> (truth x (SLbl l) = true <-> x l == 1).
Proof.
  intros Hx. simpl. destruct (qzero (x l)) eqn:E; simpl.
  - apply qzero_spec in E. split; [discriminate| intros H1; rewrite H1 in E; discriminate].
  - split; [intros _| reflexivity]. destruct (Hx l) as [H0|H1]; [|exact H1]. apply qzero_spec in H0. congruence.
Qed.
Lemma or_holds x u v : boolean_env x -> (logic_holds GOr false x [SLbl u; SLbl v] = true <-> covered x (u, v)).
Proof.
  intros Hx. unfold logic_holds, covered. cbn [map gate_truth fst snd].
  pose proof (b2q_truth_lbl x u Hx) as Hu. pose proof (b2q_truth_lbl x v Hx) as Hv.
  destruct (truth x (SLbl u)), (truth x (SLbl v)); simpl; intuition.
Qed.

Lemma vc_edge u v A t w tg : add_logic GOr false empty_pcbo [SLbl u; SLbl v] A = Ok (t, w, tg) -> ~ A == 0 ->
  kd t = KPcbo /\ exists G, pen_ok (u, v) G /\ forall x, boolean_env x -> eval x (tm t) == A * G x.
Proof.
  intros H HA.
  destruct (add_logic_spec _ _ _ _ _ _ _ _ H bkind_pcbo HA) as (G & Pc & S & _ & K & _ & _ & HG).
  { intros x Hx. constructor; [apply Hx|]. constructor; [apply Hx| constructor]. }
  split; [exact K|]. exists G. split.
  - intros x Hx. destruct (HG x Hx) as (A1 & A2 & A3). split; [exact A1|]. split.
    + intros Hc. apply A2, or_holds; assumption.
    + intros Hn. apply A3. destruct (logic_holds GOr false x [SLbl u; SLbl v]) eqn:E; [|reflexivity].
      exfalso. apply Hn, or_holds; assumption.
  - intros x Hx. rewrite (S x Hx). simpl. ring.
Qed.

Definition vc_step (A : Q) (acc : result model) (e : nat * nat) : result model :=
  let '(u, v) := e in
  bind acc (fun Qm => bind (add_logic GOr false empty_pcbo [SLbl u; SLbl v] A) (fun '(t, _, _) => m_iadd Qm (OModel t))).
Lemma vc_fold_err A edges e : fold_left (vc_step A) edges (Err e) = Err e.
Proof. induction edges as [|[u v] edges IH]; simpl; [reflexivity| exact IH]. Qed.

Lemma vc_fold A : ~ A == 0 -> forall edges Q0 Qf, fold_left (vc_step A) edges (Ok Q0) = Ok Qf -> kd Q0 = KQuboM ->
  exists Gs, Forall2 pen_ok edges Gs /\ kd Qf = KQuboM /\
    forall x, boolean_env x -> eval x (tm Qf) == eval x (tm Q0) + A * sum_pens Gs x.
Proof.
  intros HA. induction edges as [|[u v] edges IH]; intros Q0 Qf H K0.
  - simpl in H. injection H as <-. exists []. split; [constructor|]. split; [exact K0|]. intros x _. simpl. ring.
  - cbn [fold_left] in H. unfold vc_step at 2 in H. cbn [bind] in H.
    destruct (add_logic GOr false empty_pcbo [SLbl u; SLbl v] A) as [[[t w] tg]|e] eqn:EL; cbn [bind] in H; [|rewrite vc_fold_err in H; discriminate].
    destruct (m_iadd Q0 (OModel t)) as [Q1|e] eqn:EA; [|rewrite vc_fold_err in H; discriminate].
    destruct (vc_edge u v A t w tg EL HA) as (Kt & G & PG & VG).
    assert (K1 : kd Q1 = KQuboM).
    { destruct (m_iadd_eval (fun _ => 0) _ _ _ EA) as [_ K1]; [rewrite K0; intros i; left; reflexivity| congruence]. }
    destruct (IH Q1 Qf H K1) as (Gs & F & KQ & V). exists (G :: Gs). split; [constructor; assumption|]. split; [exact KQ|].
    intros x Hx. rewrite (V x Hx). destruct (m_iadd_eval x _ _ _ EA) as [E1 _]; [rewrite K0; exact Hx|].
    rewrite E1. cbn [operand_eval sum_pens]. rewrite (VG x Hx), Qmult_plus_distr_r, Qplus_assoc. reflexivity.
Qed.

Lemma eval_linear x B l : eval x (map (fun i => ([i], B)) l) == B * eval x (map (fun i => ([i], 1)) l).
Proof. induction l as [|i l IH]; simpl; [ring|]. rewrite IH. ring. Qed.

Theorem vc_value N edges A B Qf : vc_to_qubo N edges A B = Ok Qf -> ~ A == 0 ->
  exists Gs, Forall2 pen_ok edges Gs /\ forall x, boolean_env x -> eval x (tm Qf) == B * size N x + A * sum_pens Gs x.
Proof.
  unfold vc_to_qubo, add_items. intros H HA.
  destruct (m_addall (empty_model KQuboM) (map (fun i => ([i], B)) (seq 0 N))) as [Q0|] eqn:E0; cbn [bind] in H; [|discriminate].
  change (fold_left (vc_step A) edges (Ok Q0) = Ok Qf) in H.
  assert (K0 : kd Q0 = KQuboM).
  { destruct (m_addall_eval (fun _ => 0) _ _ _ E0) as [_ K]; [intros i; left; reflexivity| exact K]. }
  destruct (vc_fold A HA edges Q0 Qf H K0) as (Gs & F & _ & V). exists Gs. split; [exact F|].
  intros x Hx. rewrite (V x Hx). destruct (m_addall_eval x _ _ _ E0) as [E1 _]; [exact Hx|].
  rewrite E1, eval_linear. unfold size. cbn [tm empty_model eval]. ring.
Qed.

(* ---- ground states of the VertexCover QUBO ---- *)
Definition xb (x : env) (l : label) : bool := negb (qzero (x l)).
Lemma xb_true x l : boolean_env x -> (xb x l = true <-> x l == 1).
Proof. intros Hx. apply (b2q_truth_lbl x l Hx). Qed.
Definition cov_b (x : env) (e : nat * nat) : bool := xb x (fst e) || xb x (snd e).
Lemma cov_b_spec x e : boolean_env x -> (cov_b x e = true <-> covered x e).
Proof.
  intros Hx. unfold cov_b, covered. rewrite orb_true_iff, (xb_true x (fst e) Hx), (xb_true x (snd e) Hx). tauto.
Qed.
Fixpoint unc (edges : list (nat * nat)) (x : env) : Q :=
  match edges with [] => 0 | e :: es => (if cov_b x e then 0 else 1) + unc es x end.
Lemma unc_nonneg edges x : 0 <= unc edges x.
Proof. induction edges as [|e es IH]; simpl; [lra|]. destruct (cov_b x e); lra. Qed.
Lemma unc_zero edges x : unc edges x == 0 -> forall e, In e edges -> cov_b x e = true.
Proof.
  induction edges as [|e0 es IH]; simpl; intros H e Hin; [destruct Hin|].
  pose proof (unc_nonneg es x). destruct (cov_b x e0) eqn:E0.
  - destruct Hin as [<-|Hin]; [exact E0| apply IH; [lra| exact Hin]].
  - lra.
Qed.

Lemma pens_lower edges Gs x : Forall2 pen_ok edges Gs -> boolean_env x -> unc edges x <= sum_pens Gs x.
Proof.
  intros F Hx. induction F as [|e G es Gs' P F IH]; simpl; [lra|].
  destruct (P x Hx) as (P0 & P1 & P2). destruct (cov_b x e) eqn:E.
  - lra.
  - assert (~ covered x e) by (intros Hc; apply (cov_b_spec x e Hx) in Hc; congruence). specialize (P2 H). lra.
Qed.
Lemma pens_zero edges Gs x : Forall2 pen_ok edges Gs -> boolean_env x -> (forall e, In e edges -> covered x e) -> sum_pens Gs x == 0.
Proof.
  intros F Hx Hc. induction F as [|e G es Gs' P F IH]; simpl; [reflexivity|].
  destruct (P x Hx) as (_ & P1 & _). rewrite (P1 (Hc e (or_introl eq_refl))), IH; [ring|]. intros e' Hin. apply Hc. right. exact Hin.
Qed.

(* add one endpoint of every edge that is still uncovered *)
Definition set1 (x : env) (u : label) : env := fun l => if Nat.eqb l u then 1 else x l.
Definition fix_step (x : env) (e : nat * nat) : env := if cov_b x e then x else set1 x (fst e).
Definition fix_cover (edges : list (nat * nat)) (x : env) : env := fold_left fix_step edges x.
Definition le_env (x y : env) : Prop := forall l, x l == 1 -> y l == 1.

Lemma set1_bool x u : boolean_env x -> boolean_env (set1 x u).
Proof. intros Hx l. unfold set1. destruct (Nat.eqb l u); [right; reflexivity| apply Hx]. Qed.
Lemma fix_step_bool x e : boolean_env x -> boolean_env (fix_step x e).
Proof. intros Hx. unfold fix_step. destruct (cov_b x e); [exact Hx| apply set1_bool, Hx]. Qed.
Lemma fix_step_le x e : le_env x (fix_step x e).
Proof. intros l Hl. unfold fix_step. destruct (cov_b x e); [exact Hl|]. unfold set1. destruct (Nat.eqb l (fst e)); [reflexivity| exact Hl]. Qed.
Lemma fix_step_covers x e : boolean_env x -> covered (fix_step x e) e.
Proof.
  intros Hx. unfold fix_step. destruct (cov_b x e) eqn:E; [apply (cov_b_spec x e Hx), E|].
  left. unfold set1. rewrite Nat.eqb_refl. reflexivity.
Qed.
Lemma covered_mono x y e : le_env x y -> covered x e -> covered y e.
Proof. intros H [A|A]; [left| right]; apply H, A. Qed.

Lemma fix_cover_spec edges : forall x, boolean_env x ->
  boolean_env (fix_cover edges x) /\ le_env x (fix_cover edges x) /\ forall e, In e edges -> covered (fix_cover edges x) e.
Proof.
  unfold fix_cover. induction edges as [|e es IH]; intros x Hx; simpl.
  - split; [exact Hx|]. split; [intros l H; exact H| intros e []].
  - destruct (IH (fix_step x e) (fix_step_bool x e Hx)) as (B1 & L1 & C1).
    split; [exact B1|]. split; [intros l Hl; apply L1, fix_step_le, Hl|].
    intros e' [<-|Hin]; [eapply covered_mono; [exact L1| apply fix_step_covers, Hx]| apply C1, Hin].
Qed.

(* size grows by at most one per repaired edge *)
Lemma size_set1 N x u : boolean_env x -> size N (set1 x u) <= size N x + 1.
Proof.
  intros Hx. unfold size.
  assert (G : forall l, NoDup l ->
            eval (set1 x u) (map (fun i : label => ([i], 1)) l) <= eval x (map (fun i : label => ([i], 1)) l) + (if existsb (Nat.eqb u) l then 1 else 0)).
  { induction l as [|i l IH]; intros Hn; cbn [map eval mon existsb]; [lra|]. inversion Hn as [|? ? Hi Hl]; subst.
    specialize (IH Hl). unfold set1 at 1. destruct (Nat.eqb_spec i u) as [->|Hne].
    - rewrite Nat.eqb_refl. cbn [orb].
      assert (E0 : existsb (Nat.eqb u) l = false).
      { destruct (existsb (Nat.eqb u) l) eqn:E; [|reflexivity]. apply existsb_exists in E. destruct E as (j & Hj & Ej).
        apply Nat.eqb_eq in Ej. subst j. contradiction. }
      rewrite E0 in IH. destruct (Hx u) as [E|E]; rewrite E; lra.
    - destruct (Nat.eqb_spec u i) as [C|_]; [congruence|]. cbn [orb]. destruct (existsb (Nat.eqb u) l); lra. }
  specialize (G (seq 0 N) (seq_NoDup N 0)). destruct (existsb (Nat.eqb u) (seq 0 N)); lra.
Qed.
Lemma unc_mono edges x y : boolean_env x -> boolean_env y -> le_env x y -> unc edges y <= unc edges x.
Proof.
  intros Hx Hy L. induction edges as [|e es IH]; simpl; [lra|].
  destruct (cov_b x e) eqn:Ex, (cov_b y e) eqn:Ey; try lra.
  exfalso. apply (cov_b_spec x e Hx) in Ex. pose proof (covered_mono x y e L Ex) as C0. apply (cov_b_spec y e Hy) in C0. congruence.
Qed.
Lemma fix_cover_size N edges : forall x, boolean_env x -> size N (fix_cover edges x) <= size N x + unc edges x.
Proof.
  unfold fix_cover. induction edges as [|e es IH]; intros x Hx; simpl; [lra|].
  pose proof (IH (fix_step x e) (fix_step_bool x e Hx)) as H1.
  pose proof (unc_mono es x (fix_step x e) Hx (fix_step_bool x e Hx) (fix_step_le x e)) as H2.
  unfold fix_step in *. destruct (cov_b x e); [lra|]. pose proof (size_set1 N x (fst e) Hx). lra.
Qed.

Theorem vc_ground N edges A B Qf x : vc_to_qubo N edges A B = Ok Qf -> 0 < B -> B < A ->
  boolean_env x -> (forall x', boolean_env x' -> eval x (tm Qf) <= eval x' (tm Qf)) ->
  (forall e, In e edges -> covered x e)
  /\ eval x (tm Qf) == B * size N x
  /\ forall c, boolean_env c -> (forall e, In e edges -> covered c e) -> size N x <= size N c.
Proof.
  intros HQ HB HAB Hx Hmin.
  destruct (vc_value N edges A B Qf HQ ltac:(lra)) as (Gs & F & V).
  destruct (fix_cover_spec edges x Hx) as (Bf & Lf & Cf). set (y := fix_cover edges x) in *.
  pose proof (Hmin y Bf) as M. rewrite (V x Hx), (V y Bf), (pens_zero edges Gs y F Bf Cf) in M.
  pose proof (pens_lower edges Gs x F Hx) as PL. pose proof (fix_cover_size N edges x Hx) as FS. fold y in FS.
  pose proof (unc_nonneg edges x) as U0.
  assert (U : unc edges x == 0).
  { assert (A * unc edges x <= A * sum_pens Gs x) by (apply Qmult_le_l; lra).
    assert (B * size N y <= B * (size N x + unc edges x)) by (apply Qmult_le_l; lra).
    assert ((A - B) * unc edges x <= 0) by lra.
    destruct (Qlt_le_dec 0 (unc edges x)) as [Hp|Hn]; [|lra].
    assert (0 < (A - B) * unc edges x) by (apply Qmult_lt_0_compat; lra). lra. }
  assert (Cx : forall e, In e edges -> covered x e) by (intros e Hin; apply (cov_b_spec x e Hx), (unc_zero edges x U e Hin)).
  split; [exact Cx|]. split; [rewrite (V x Hx), (pens_zero edges Gs x F Hx Cx); ring|].
  intros c Hc Cc. pose proof (Hmin c Hc) as Mc.
  rewrite (V x Hx), (V c Hc), (pens_zero edges Gs x F Hx Cx), (pens_zero edges Gs c F Hc Cc) in Mc.
  apply (Qmult_le_l _ _ B HB). lra.
Qed.

(* ================= AlternatingSectorsChain (open chain) ================= *)
Definition asc_strength (chain : nat) (min_s max_s : Q) (q : nat) : Q := if Nat.even (q / chain)%nat then - max_s else - min_s.
Fixpoint chain_sum (f : nat -> Q) (z : env) (qs : list nat) : Q :=
  match qs with [] => 0 | q :: qs' => f q * (z q * z (S q)) + chain_sum f z qs' end.

Lemma squash_pair q : squash KQusoM [q; S q] = Ok [q; S q].
Proof.
  unfold squash. cbn [is_spin is_quadratic squashS fold_right tog andb].
  assert (E : (q <? S q)%nat = true) by (apply Nat.ltb_lt; lia). rewrite E. reflexivity.
Qed.

Lemma m_update_chain f z : spin_env z -> forall qs m m',
  m_update m (map (fun q => ([q; S q], f q)) qs) = Ok m' -> kd m = KQusoM -> NoDup qs ->
  (forall k, In k (map fst (tm m)) -> exists q', k = [q'; S q'] /\ ~ In q' qs) ->
  eval z (tm m') == eval z (tm m) + chain_sum f z qs /\ kd m' = KQusoM.
Proof.
  intros Hz. induction qs as [|q qs IH]; intros m m' H K Hnd Hkeys; cbn [map m_update] in H.
  - injection H as <-. split; [simpl; ring| exact K].
  - destruct (m_setitem m [q; S q] (f q)) as [m1|] eqn:E1; cbn [bind] in H; [|discriminate].
    destruct (m_setitem_spec _ _ _ _ E1) as (k' & Hs & Ht & K1 & _). rewrite K, squash_pair in Hs. injection Hs as <-.
    inversion Hnd as [|? ? Hq Hnd']; subst.
    assert (Hfresh : ~ In [q; S q] (map fst (tm m))).
    { intros Hin. destruct (Hkeys _ Hin) as (q' & E & Hn). injection E as <-. apply Hn. left. reflexivity. }
    destruct (IH m1 m' H ltac:(congruence) Hnd') as [A B].
    + intros k Hin. rewrite Ht in Hin. apply in_map_iff in Hin. destruct Hin as ([k0 v0] & <- & Hin0).
      apply set_sq_In in Hin0. destruct Hin0 as [[-> _]|Hin0].
      * exists q. split; [reflexivity| exact Hq].
      * destruct (Hkeys k0 (in_map fst _ _ Hin0)) as (q' & E & Hn). exists q'. split; [exact E|].
        intros Hc. apply Hn. right. exact Hc.
    + split; [|exact B]. rewrite A, Ht, eval_set_sq.
      assert (G0 : get_sq (tm m) [q; S q] = 0).
      { unfold get_sq. rewrite (lookup_None_notin _ _ Hfresh). reflexivity. }
      rewrite G0. simpl. ring.
Qed.

Theorem asc_value N chain min_s max_s H : asc_to_quso N chain min_s max_s false = Ok H ->
  forall z, spin_env z -> eval z (tm H) == chain_sum (asc_strength chain min_s max_s) z (seq 0 (N - 1)).
Proof.
  unfold asc_to_quso. intros HH z Hz.
  destruct (m_update (empty_model KQusoM) _) as [L|] eqn:EL; cbn [bind] in HH; [|discriminate]. injection HH as <-.
  destruct (m_update_chain (asc_strength chain min_s max_s) z Hz (seq 0 (N - 1)) _ _ EL eq_refl (seq_NoDup _ _)) as [A _].
  - intros k [].
  - rewrite A. simpl. ring.
Qed.

(* ferromagnetic chain: with positive strengths, the energy is bounded below by the sum of the (negative) couplings, and a
   state reaches the bound exactly when all neighbouring spins agree -- the two uniform states *)
Lemma chain_lower f z qs : spin_env z -> (forall q, In q qs -> f q < 0) ->
  chain_sum f z qs >= chain_sum f (fun _ => 1) qs /\
  (chain_sum f z qs == chain_sum f (fun _ => 1) qs -> forall q, In q qs -> z q * z (S q) == 1).
Proof.
  intros Hz. induction qs as [|q qs IH]; intros Hf; simpl; [split; [lra| intros _ q []]|].
  destruct IH as [IH1 IH2]; [intros q' Hin; apply Hf; right; exact Hin|].
  pose proof (Hf q (or_introl eq_refl)) as Hq.
  assert (P : z q * z (S q) == 1 \/ z q * z (S q) == -(1)).
  { destruct (Hz q) as [E1|E1], (Hz (S q)) as [E2|E2]; rewrite E1, E2; [left|right|right|left]; ring. }
  split.
  - destruct P as [P|P]; rewrite P; lra.
  - intros E q' [<-|Hin].
    + destruct P as [P|P]; [exact P|]. rewrite P in E. lra.
    + apply IH2; [|exact Hin]. destruct P as [P|P]; rewrite P in E; lra.
Qed.
Theorem asc_ground N chain min_s max_s H z : asc_to_quso N chain min_s max_s false = Ok H ->
  0 < min_s -> 0 < max_s -> spin_env z -> (forall z', spin_env z' -> eval z (tm H) <= eval z' (tm H)) ->
  forall q, (q < N - 1)%nat -> z q * z (S q) == 1.
Proof.
  intros HH Hmin Hmax Hz Hm q Hq.
  assert (Hf : forall q0, In q0 (seq 0 (N - 1)) -> asc_strength chain min_s max_s q0 < 0).
  { intros q0 _. unfold asc_strength. destruct (Nat.even (q0 / chain)); lra. }
  destruct (chain_lower (asc_strength chain min_s max_s) z (seq 0 (N - 1)) Hz Hf) as [L1 L2].
  assert (H1 : spin_env (fun _ => 1)) by (intros i; left; reflexivity).
  pose proof (Hm _ H1) as M. rewrite (asc_value _ _ _ _ _ HH z Hz), (asc_value _ _ _ _ _ HH _ H1) in M.
  apply L2; [lra| apply in_seq; lia].
Qed.

(* ================= BILP: minimise c.x subject to S x = b ================= *)
Definition lin (w : list Q) (x : env) : Q := eval x (map (fun '(i, s) => ([i], s)) (combine (seq 0 (length w)) w)).
Fixpoint viol (Sb : list (list Q * Q)) (x : env) : Q :=
  match Sb with [] => 0 | (Sj, bj) :: r => (bj - lin Sj x) * (bj - lin Sj x) + viol r x end.

Lemma eval_scaled x (f : Q -> Q) (c0 : Q) (l : list (nat * Q)) : (forall s, f s == c0 * s) ->
  eval x (map (fun '(i, s) => ([i], f s)) l) == c0 * eval x (map (fun '(i, s) => ([i], s)) l).
Proof. intros Hf. induction l as [|[i s] l IH]; simpl; [ring|]. rewrite IH, Hf. ring. Qed.

Definition bilp_step (N : nat) (A : Q) (acc : result model) (p : list Q * Q) : result model :=
  let '(Sj, bj) := p in
  bind acc (fun Qm =>
  bind (m_iadd (empty_model KQuboM) (OScalar bj)) (fun T0 =>
  bind (add_items T0 (map (fun '(i, s) => ([i], - s)) (combine (seq 0 N) Sj))) (fun T1 =>
  bind (m_mul T1 (OScalar A)) (fun AT =>
  bind (m_imul T1 (OModel AT)) (fun T2 => m_iadd Qm (OModel T2)))))).
Lemma bilp_fold_err N A l e : fold_left (bilp_step N A) l (Err e) = Err e.
Proof. induction l as [|[Sj bj] l IH]; simpl; [reflexivity| exact IH]. Qed.

Lemma bilp_fold N A : forall Sb Q0 Qf, fold_left (bilp_step N A) Sb (Ok Q0) = Ok Qf -> kd Q0 = KQuboM ->
  (forall Sj bj, In (Sj, bj) Sb -> length Sj = N) ->
  kd Qf = KQuboM /\ forall x, boolean_env x -> eval x (tm Qf) == eval x (tm Q0) + A * viol Sb x.
Proof.
  induction Sb as [|[Sj bj] Sb IH]; intros Q0 Qf H K0 Hlen.
  - simpl in H. injection H as <-. split; [exact K0|]. intros x _. simpl. ring.
  - cbn [fold_left] in H. unfold bilp_step at 2 in H. cbn [bind] in H.
    destruct (m_iadd (empty_model KQuboM) (OScalar bj)) as [T0|e] eqn:E0; cbn [bind] in H; [|rewrite bilp_fold_err in H; discriminate].
    destruct (add_items T0 _) as [T1|e] eqn:E1; cbn [bind] in H; [|rewrite bilp_fold_err in H; discriminate].
    destruct (m_mul T1 (OScalar A)) as [AT|e] eqn:E2; cbn [bind] in H; [|rewrite bilp_fold_err in H; discriminate].
    destruct (m_imul T1 (OModel AT)) as [T2|e] eqn:E3; cbn [bind] in H; [|rewrite bilp_fold_err in H; discriminate].
    destruct (m_iadd Q0 (OModel T2)) as [Q1|e] eqn:E4; [|rewrite bilp_fold_err in H; discriminate].
    assert (B0 : boolean_env (fun _ => 0)) by (intros i; left; reflexivity).
    assert (K_T0 : kd T0 = KQuboM) by (destruct (m_iadd_eval _ _ _ _ E0 B0) as [_ K]; exact K).
    assert (W_T0 : wf (kd T0) (tm T0)) by (apply (m_iadd_wf (empty_model KQuboM) _ _ (wf_nil KQuboM) E0)).
    unfold add_items in E1.
    assert (K_T1 : kd T1 = KQuboM) by (destruct (m_addall_eval (fun _ => 0) _ _ _ E1) as [_ K]; [rewrite K_T0; exact B0| congruence]).
    assert (W_T1 : wf (kd T1) (tm T1)) by (apply (m_addall_wf _ _ _ W_T0 E1)).
    assert (K_AT : kd AT = KQuboM) by (destruct (m_mul_eval (fun _ => 0) _ _ _ E2) as [_ K]; [rewrite K_T1; exact B0| congruence]).
    assert (K_T2 : kd T2 = KQuboM) by (destruct (m_imul_eval (fun _ => 0) _ _ _ W_T1 E3) as [_ K]; [rewrite K_T1; exact B0| congruence]).
    assert (K_Q1 : kd Q1 = KQuboM) by (destruct (m_iadd_eval (fun _ => 0) _ _ _ E4) as [_ K]; [rewrite K0; exact B0| congruence]).
    destruct (IH Q1 Qf H K_Q1) as [KQ V]; [intros S' b' Hin; apply (Hlen S' b'); right; exact Hin|].
    split; [exact KQ|]. intros x Hx. rewrite (V x Hx).
    destruct (m_iadd_eval x _ _ _ E4) as [A4 _]; [rewrite K0; exact Hx|].
    destruct (m_imul_eval x _ _ _ W_T1 E3) as [A3 _]; [rewrite K_T1; exact Hx|].
    destruct (m_mul_eval x _ _ _ E2) as [A2 _]; [rewrite K_T1; exact Hx|].
    destruct (m_addall_eval x _ _ _ E1) as [A1 _]; [rewrite K_T0; exact Hx|].
    destruct (m_iadd_eval x _ _ _ E0) as [A0 _]; [exact Hx|].
    rewrite A4. cbn [operand_eval]. rewrite A3. cbn [operand_eval]. rewrite A2, A1, A0. cbn [operand_eval tm empty_model eval viol].
    rewrite (eval_scaled x Qopp (-(1)) (combine (seq 0 N) Sj)) by (intros s; ring).
    unfold lin. rewrite (Hlen Sj bj (or_introl eq_refl)). ring.
Qed.

Theorem bilp_value c S b A B Qf : bilp_to_qubo c S b A B = Ok Qf -> (forall Sj bj, In (Sj, bj) (combine S b) -> length Sj = length c) ->
  forall x, boolean_env x -> eval x (tm Qf) == B * lin c x + A * viol (combine S b) x.
Proof.
  unfold bilp_to_qubo, add_items. intros H Hlen x Hx.
  destruct (m_addall (empty_model KQuboM) _) as [Q0|] eqn:E0; cbn [bind] in H; [|discriminate].
  change (fold_left (bilp_step (length c) A) (combine S b) (Ok Q0) = Ok Qf) in H.
  assert (K0 : kd Q0 = KQuboM) by (destruct (m_addall_eval (fun _ => 0) _ _ _ E0) as [_ K]; [intros i; left; reflexivity| exact K]).
  destruct (bilp_fold (length c) A (combine S b) Q0 Qf H K0 Hlen) as [_ V]. rewrite (V x Hx).
  destruct (m_addall_eval x _ _ _ E0) as [A0 _]; [exact Hx|]. rewrite A0. cbn [tm empty_model eval].
  rewrite (eval_scaled x (fun ci => B * ci) B (combine (seq 0 (length c)) c)) by (intros s; ring). unfold lin. ring.
Qed.

Definition feasible (Sb : list (list Q * Q)) (x : env) : Prop := forall Sj bj, In (Sj, bj) Sb -> lin Sj x == bj.
Definition int_rows (Sb : list (list Q * Q)) : Prop := forall Sj bj, In (Sj, bj) Sb -> is_int bj /\ Forall is_int Sj.
Fixpoint sumabs (w : list Q) : Q := match w with [] => 0 | c :: w' => Qabs c + sumabs w' end.

Lemma eval_pairs_int x (l : list (nat * Q)) : boolean_env x -> Forall (fun p => is_int (snd p)) l ->
  is_int (eval x (map (fun '(i, s) => ([i], s)) l)).
Proof.
  intros Hx H. induction H as [|[i s] l Hs Hl IH]; simpl; [exists 0%Z; reflexivity|].
  apply is_int_plus; [|exact IH]. apply is_int_mult; [exact Hs|]. apply is_int_mult; [|exists 1%Z; reflexivity].
  destruct (Hx i) as [E|E]; [exists 0%Z| exists 1%Z]; rewrite E; reflexivity.
Qed.
Lemma combine_snd_Forall {A} (P : Q -> Prop) (l1 : list A) (l2 : list Q) : Forall P l2 -> Forall (fun p => P (snd p)) (combine l1 l2).
Proof.
  intros H. revert l1. induction H as [|s l2 Hs Hl IH]; intros l1; destruct l1; simpl; constructor; [exact Hs| apply IH].
Qed.
Lemma lin_int w x : boolean_env x -> Forall is_int w -> is_int (lin w x).
Proof. intros Hx Hw. unfold lin. apply eval_pairs_int; [exact Hx|]. apply combine_snd_Forall, Hw. Qed.

Lemma viol_nonneg Sb x : 0 <= viol Sb x.
Proof. induction Sb as [|[Sj bj] r IH]; simpl; [lra|]. pose proof (sq_nonneg (bj - lin Sj x)). lra. Qed.
Lemma viol_feasible Sb x : feasible Sb x -> viol Sb x == 0.
Proof.
  induction Sb as [|[Sj bj] r IH]; simpl; intros H; [reflexivity|].
  rewrite (H Sj bj (or_introl eq_refl)), IH; [ring| intros S' b' Hin; apply H; right; exact Hin].
Qed.
Lemma viol_infeasible Sb x Sj bj : int_rows Sb -> boolean_env x -> In (Sj, bj) Sb -> ~ lin Sj x == bj -> 1 <= viol Sb x.
Proof.
  intros Hi Hx Hin Hn. induction Sb as [|[S' b'] r IH]; [destruct Hin|]. simpl.
  pose proof (viol_nonneg r x) as Vr. pose proof (sq_nonneg (b' - lin S' x)) as Sq.
  destruct Hin as [E|Hin].
  - injection E as -> ->. destruct (Hi Sj bj (or_introl eq_refl)) as [Ib Is].
    assert (Hd : is_int (bj - lin Sj x)) by (apply is_int_plus; [exact Ib| apply is_int_opp, lin_int; assumption]).
    assert (Hnz : ~ bj - lin Sj x == 0) by (intros Hz; apply Hn; lra).
    pose proof (int_nonzero_sq _ Hd Hnz). lra.
  - assert (1 <= viol r x) by (apply IH; [intros S2 b2 H2; apply Hi; right; exact H2| exact Hin]). lra.
Qed.

Lemma pairs_spread x x0 (l : list (nat * Q)) : boolean_env x -> boolean_env x0 ->
  eval x0 (map (fun '(i, s) => ([i], s)) l) - eval x (map (fun '(i, s) => ([i], s)) l) <= sumabs (map snd l).
Proof.
  intros Hx Hx0. induction l as [|[i s] l IH]; simpl; [lra|].
  assert (s * (x0 i * 1) - s * (x i * 1) <= Qabs s).
  { pose proof (Qle_Qabs s). pose proof (Qle_Qabs (- s)). rewrite Qabs_opp in H0.
    destruct (Hx i) as [E|E], (Hx0 i) as [E0|E0]; rewrite E, E0; pose proof (Qabs_nonneg s); lra. }
  lra.
Qed.
Lemma combine_snd {A} (l1 : list A) (l2 : list Q) : length l1 = length l2 -> map snd (combine l1 l2) = l2.
Proof. revert l2. induction l1 as [|a l1 IH]; intros [|b l2] H; simpl in *; try lia; [reflexivity|]. rewrite IH by lia. reflexivity. Qed.
Lemma lin_spread c x x0 : boolean_env x -> boolean_env x0 -> lin c x0 - lin c x <= sumabs c.
Proof.
  intros Hx Hx0. unfold lin. pose proof (pairs_spread x x0 (combine (seq 0 (length c)) c) Hx Hx0) as P.
  rewrite combine_snd in P by (rewrite seq_length; reflexivity). exact P.
Qed.

(* with A > B * sum |c_i| (and integer data): every ground state is feasible and optimal, and the ground energy is B * c.x *)
Theorem bilp_ground c S b A B Qf x0 xs : bilp_to_qubo c S b A B = Ok Qf ->
  (forall Sj bj, In (Sj, bj) (combine S b) -> length Sj = length c) -> int_rows (combine S b) ->
  0 < B -> B * sumabs c < A ->
  boolean_env x0 -> feasible (combine S b) x0 ->
  boolean_env xs -> (forall x, boolean_env x -> eval xs (tm Qf) <= eval x (tm Qf)) ->
  feasible (combine S b) xs /\
  (forall x, boolean_env x -> feasible (combine S b) x -> lin c xs <= lin c x) /\
  eval xs (tm Qf) == B * lin c xs.
Proof.
  intros HQ Hlen Hint HB HA Hx0 Hf0 Hxs Hmin. set (Sb := combine S b) in *.
  pose proof (bilp_value c S b A B Qf HQ Hlen) as V. fold Sb in V.
  assert (A0 : 0 < A).
  { assert (0 <= sumabs c) by (clear; induction c as [|q c IH]; simpl; [lra| pose proof (Qabs_nonneg q); lra]).
    assert (0 <= B * sumabs c) by (apply Qmult_le_0_compat; lra). lra. }
  assert (Feas : feasible Sb xs).
  { intros Sj bj Hin. destruct (Qeq_dec (lin Sj xs) bj) as [E|Hn]; [exact E|]. exfalso.
    pose proof (viol_infeasible Sb xs Sj bj Hint Hxs Hin Hn) as V1.
    pose proof (Hmin x0 Hx0) as M. rewrite (V xs Hxs), (V x0 Hx0), (viol_feasible Sb x0 Hf0) in M.
    pose proof (lin_spread c xs x0 Hxs Hx0) as Sp.
    assert (A <= A * viol Sb xs) by (rewrite <- (Qmult_1_r A) at 1; apply Qmult_le_l; lra).
    assert (B * (lin c x0 - lin c xs) <= B * sumabs c) by (apply Qmult_le_l; lra). lra. }
  split; [exact Feas|]. split.
  - intros x Hx Hfx. pose proof (Hmin x Hx) as M.
    rewrite (V xs Hxs), (V x Hx), (viol_feasible Sb xs Feas), (viol_feasible Sb x Hfx) in M.
    apply (Qmult_le_l _ _ B HB). lra.
  - rewrite (V xs Hxs), (viol_feasible Sb xs Feas). ring.
Qed.

Lemma bool_sum_lin (xb : label -> bool) (l : list (nat * Q)) :
  sumq (map (fun '(i, s) => if xb i then s else 0) l) == eval (fun i => if xb i then 1 else 0) (map (fun '(i, s) => ([i], s)) l).
Proof. induction l as [|[i s] l IH]; simpl; [reflexivity|]. rewrite IH. destruct (xb i); ring. Qed.
Theorem bilp_valid_iff S b (xb : label -> bool) :
  bilp_valid S b xb = true <-> feasible (combine S b) (fun i => if xb i then 1 else 0).
Proof.
  unfold bilp_valid, feasible. rewrite forallb_forall. split.
  - intros H Sj bj Hin. specialize (H (Sj, bj) Hin). cbn beta iota in H. apply Qeq_bool_iff in H.
    rewrite fold_qplus, bool_sum_lin in H. unfold lin. lra.
  - intros H [Sj bj] Hin. apply Qeq_bool_iff. rewrite fold_qplus, bool_sum_lin. specialize (H Sj bj Hin). unfold lin in H. lra.
Qed.
