(* C16 for the reduced forms: with a constant penalty c the reduced model is  Base + c * Pen  where Base and Pen do not
   depend on c (a "shadow" run of the reduction that never looks at the penalty computes both) *)
From QV.Model Require Import Base Matrix Arith Convert Reduce.
From QV.Proofs Require Import BaseProofs KeyProofs ArithProofs InvProofs RefreshProofs ConvertProofs PenaltyArith ReduceProofs.
From Coq Require Import Lia Lqa.
Open Scope Q_scope.

Record shape := { sRed : reductions; sF : pfreq; sAnc : nat }.
Definition shape_of (st : rstate) : shape := {| sRed := rRed st; sF := rF st; sAnc := rAnc st |}.

(* the same control flow as reduce_term, without the model and without the penalty: returns the final key, the final
   bookkeeping, and the sum of the gadgets that were added *)
Fixpoint shadow_term (fuel d : nat) (hint : list key) (k : key) (sh : shape) : option (key * shape * (env -> Q)) :=
  if (length k <=? d)%nat then Some (k, sh, fun _ => 0) else
  match fuel with
  | O => None
  | S fuel' =>
      match scan (all_pairs k) (sRed sh) hint (sF sh) None with
      | NoPair => None
      | PrevUsed x y z =>
          match shadow_term fuel' d hint (replace_pair k x y z) sh with
          | Some (k', sh', P) => Some (k', sh', fun s => gad s z x y + P s)
          | None => None
          end
      | Fresh x y =>
          let z := sAnc sh in
          match shadow_term fuel' d hint (replace_pair k x y z)
                  {| sRed := set_ [x; y] z (sRed sh); sF := pf_inc (pf_inc (sF sh) x z) y z; sAnc := S z |} with
          | Some (k', sh', P) => Some (k', sh', fun s => gad s z x y + P s)
          | None => None
          end
      end
  end.

Lemma reduce_term_shadow : forall fuel d lam hint k st k' st',
  reduce_term fuel d lam hint k st = Ok (k', st') -> bmat (kd (rD st)) ->
  exists P, shadow_term fuel d hint k (shape_of st) = Some (k', shape_of st', P) /\ kd (rD st') = kd (rD st) /\
            forall s, boolean_env s -> eval s (tm (rD st')) == eval s (tm (rD st)) + lam * P s.
Proof.
  induction fuel as [|fuel IH]; intros d lam hint k st k' st' H Hb; cbn [reduce_term shadow_term] in *.
  - destruct (length k <=? d)%nat; [|discriminate]. injection H as <- <-. exists (fun _ => 0). split; [reflexivity|]. split; [reflexivity|]. intros; ring.
  - destruct (length k <=? d)%nat. { injection H as <- <-. exists (fun _ => 0). split; [reflexivity|]. split; [reflexivity|]. intros; ring. }
    unfold shape_of. cbn [sRed sF sAnc].
    destruct (scan (all_pairs k) (rRed st) hint (rF st) None) as [x y z|x y|]; [| |discriminate].
    + destruct (m_addall (rD st) (gadget z x y lam)) as [D1|] eqn:ED; cbn [bind] in H; [|discriminate].
      assert (K1 : kd D1 = kd (rD st)) by (destruct (add_gadget_eval (fun _ => 0) _ _ _ _ _ _ ED Hb) as [_ K]; [intros i; left; reflexivity| exact K]).
      assert (Hb1 : bmat (kd (rD (with_rD st D1)))) by (simpl; rewrite K1; exact Hb).
      destruct (IH _ _ _ _ _ _ _ H Hb1) as (P & SH & K & V). unfold shape_of, with_rD in *. cbn [rRed rF rAnc rD] in SH, K, V.
      rewrite SH.
      exists (fun s => gad s z x y + P s). split; [reflexivity|]. split; [congruence|].
      intros s Hs. rewrite (V s Hs). destruct (add_gadget_eval s _ _ _ _ _ _ ED Hb Hs) as [E1 _]. rewrite E1. ring.
    + destruct (m_addall (rD st) (gadget (rAnc st) x y lam)) as [D1|] eqn:ED; cbn [bind] in H; [|discriminate].
      assert (K1 : kd D1 = kd (rD st)) by (destruct (add_gadget_eval (fun _ => 0) _ _ _ _ _ _ ED Hb) as [_ K]; [intros i; left; reflexivity| exact K]).
      match type of H with reduce_term _ _ _ _ _ ?s1 = _ => set (st1 := s1) in * end.
      assert (Hb1 : bmat (kd (rD st1))) by (simpl; rewrite K1; exact Hb).
      destruct (IH _ _ _ _ _ _ _ H Hb1) as (P & SH & K & V). unfold st1, shape_of in *. cbn [rRed rF rAnc rD] in SH, K, V.
      rewrite SH. exists (fun s => gad s (rAnc st) x y + P s). split; [reflexivity|]. split; [congruence|].
      intros s Hs. rewrite (V s Hs). destruct (add_gadget_eval s _ _ _ _ _ _ ED Hb Hs) as [E1 _]. rewrite E1. ring.
Qed.

Fixpoint shadow_fold (d : nat) (hint : list key) (ms : terms) (sh : shape) : option (shape * (env -> Q) * (env -> Q)) :=
  match ms with
  | [] => Some (sh, fun _ => 0, fun _ => 0)
  | (k, v) :: ms' =>
      match shadow_term (length k) d hint k sh with
      | Some (k', sh', P) =>
          match shadow_fold d hint ms' sh' with
          | Some (shf, B, Pn) => Some (shf, fun s => v * mon s k' + B s, fun s => P s + Pn s)
          | None => None
          end
      | None => None
      end
  end.

Lemma fold_shadow d c hint : forall ms st0 stf,
  fold_left (red_step d (fun _ => c) hint) ms (Ok st0) = Ok stf -> bmat (kd (rD st0)) ->
  exists B Pn, shadow_fold d hint ms (shape_of st0) = Some (shape_of stf, B, Pn) /\
    forall s, boolean_env s -> eval s (tm (rD stf)) == eval s (tm (rD st0)) + B s + c * Pn s.
Proof.
  induction ms as [|[k v] ms IH]; intros st0 stf H Hb.
  - simpl in H. injection H as <-. exists (fun _ => 0), (fun _ => 0). split; [reflexivity|]. intros; ring.
  - cbn [fold_left] in H. unfold red_step at 2 in H. cbn [bind] in H.
    destruct (reduce_term (length k) d c hint k st0) as [[k' st1]|e] eqn:ER; cbn [bind] in H;
      [|rewrite fold_err in H; [discriminate| intros e0 [? ?]; reflexivity]].
    destruct (m_additem (rD st1) k' v) as [D2|e] eqn:EA; cbn [bind] in H;
      [|rewrite fold_err in H; [discriminate| intros e0 [? ?]; reflexivity]].
    destruct (reduce_term_shadow _ _ _ _ _ _ _ _ ER Hb) as (P & SH & K1 & V1).
    assert (Hb1 : bmat (kd (rD st1))) by (rewrite K1; exact Hb).
    assert (K2 : kd D2 = kd (rD st1)) by (destruct (m_additem_eval (fun _ => 0) _ _ _ _ EA) as [_ K2]; [apply Hb1; intros i; left; reflexivity| exact K2]).
    assert (Hb2 : bmat (kd (rD (with_rD st1 D2)))) by (simpl; rewrite K2; exact Hb1).
    destruct (IH _ _ H Hb2) as (B & Pn & SF & V). change (shape_of (with_rD st1 D2)) with (shape_of st1) in SF.
    cbn [shadow_fold]. rewrite SH, SF. exists (fun s => v * mon s k' + B s), (fun s => P s + Pn s). split; [reflexivity|].
    intros s Hs. rewrite (V s Hs). cbn [with_rD rD]. destruct (m_additem_eval s _ _ _ _ EA (Hb1 s Hs)) as [E2 _].
    rewrite E2, (V1 s Hs). ring.
Qed.

(* the reduced model is affine in a constant penalty, with base and slope that do not depend on it *)
Theorem reduce_affine m out deg pairs c1 c2 D1 D2 :
  reduce_degree m out deg (LConst c1) pairs = Ok D1 -> reduce_degree m out deg (LConst c2) pairs = Ok D2 -> bmat out ->
  exists B Pn, forall s, boolean_env s -> eval s (tm D1) == B s + c1 * Pn s /\ eval s (tm D2) == B s + c2 * Pn s.
Proof.
  unfold reduce_degree. intros H1 H2 Hb.
  destruct (match deg with Some d => (d <? 2)%nat | None => false end); [discriminate|].
  set (d := match deg with Some d => d | None => match deg_c m with Some d => d | None => 0%nat end end) in *.
  destruct (mapped_self (mp m) (tm m)) as [ms|]; cbn [bind] in H1, H2; [|discriminate].
  destruct (init_freq (mp m) (tm m)) as [f0|]; cbn [bind] in H1, H2; [|discriminate].
  set (hint := map_hint (mp m) pairs) in *.
  set (st0 := {| rD := empty_model out; rRed := []; rF := f0; rAnc := num_vars m |}) in *.
  match type of H1 with bind ?F _ = _ => change F with (fold_left (red_step d (fun _ => c1) hint) ms (Ok st0)) in H1 end.
  match type of H2 with bind ?F _ = _ => change F with (fold_left (red_step d (fun _ => c2) hint) ms (Ok st0)) in H2 end.
  destruct (fold_left (red_step d (fun _ => c1) hint) ms (Ok st0)) as [s1|] eqn:E1; cbn [bind] in H1; [|discriminate].
  destruct (fold_left (red_step d (fun _ => c2) hint) ms (Ok st0)) as [s2|] eqn:E2; cbn [bind] in H2; [|discriminate].
  injection H1 as <-. injection H2 as <-.
  assert (Hb0 : bmat (kd (rD st0))) by exact Hb.
  destruct (fold_shadow d c1 hint ms st0 s1 E1 Hb0) as (B1 & P1 & S1 & V1).
  destruct (fold_shadow d c2 hint ms st0 s2 E2 Hb0) as (B2 & P2 & S2 & V2).
  rewrite S1 in S2. assert (EB : B2 = B1) by congruence. assert (EP : P2 = P1) by congruence. subst B2 P2.
  exists B1, P1. intros s Hs. rewrite (V1 s Hs), (V2 s Hs). change (eval s (tm (rD st0))) with 0. split; ring.
Qed.
