(* C17: the index arithmetic of the C kernels.  The extension stores per-spin (per-term) variable-length rows in one flat
   array plus an `index` array of row starts (index[0] = 0, index[i] = index[i-1] + num[i-1]) and reads
   arr[index[i] + j] for j < num[i].  These lemmas show that every such access is inside the allocated block and
   reads the j-th entry of row i, and that the indices read from those rows are themselves valid positions of the
   per-spin arrays. *)
From QV.Model Require Import Base Matrix Convert Reduce Anneal.
From QV.Proofs Require Import BaseProofs AnnealProofs.
From Coq Require Import Lia.
Arguments rand_int : simpl never.

Section Flat.
  Context {A : Type}.
  Definition counts (rows : list (list A)) : list nat := map (@length A) rows.
  Definition flat (rows : list (list A)) : list A := concat rows.
  (* index[i] as the C code computes it *)
  Fixpoint row_start (rows : list (list A)) (i : nat) : nat :=
    match i, rows with
    | O, _ => O
    | S i', r :: rows' => length r + row_start rows' i'
    | S _, [] => O
    end.
  Lemma row_start_succ rows : forall i, (i < length rows)%nat ->
    row_start rows (S i) = (row_start rows i + nth i (counts rows) 0%nat)%nat.
  Proof.
    induction rows as [|r rows IH]; intros i Hi; simpl in Hi; [lia|].
    destruct i as [|i]; [simpl; destruct rows; simpl; lia|].
    change (row_start (r :: rows) (S (S i))) with (length r + row_start rows (S i))%nat.
    rewrite IH by lia. simpl. lia.
  Qed.
  Lemma flat_length rows : length (flat rows) = fold_right Nat.add O (counts rows).
  Proof. unfold flat, counts. induction rows as [|r rows IH]; simpl; [reflexivity|]. rewrite app_length, IH. reflexivity. Qed.
  (* arr[index[i] + j], j < num[i], is inside the block of sum(num) elements and is entry j of row i *)
  Theorem flat_access d rows : forall i j, (i < length rows)%nat -> (j < length (nth i rows []))%nat ->
    (row_start rows i + j < length (flat rows))%nat /\ nth (row_start rows i + j) (flat rows) d = nth j (nth i rows []) d.
  Proof.
    unfold flat. induction rows as [|r rows IH]; intros i j Hi Hj; simpl in Hi; [lia|].
    destruct i as [|i]; simpl.
    - rewrite app_length. split; [simpl in Hj; lia|]. rewrite app_nth1 by (simpl in Hj; exact Hj). reflexivity.
    - simpl in Hj. destruct (IH i j ltac:(lia) Hj) as [B E]. rewrite app_length. split; [lia|].
      rewrite app_nth2 by lia. replace (length r + row_start rows i + j - length r)%nat with (row_start rows i + j)%nat by lia. exact E.
  Qed.
End Flat.

(* the quadratic kernel: neighbours[] and J[] are the flattened rows; what is read from neighbours[] is a valid spin *)
Theorem quso_access a N : args_ok a N ->
  forall i j, (i < N)%nat -> (j < nth i (counts (qnb a)) 0%nat)%nat ->
    let pos := (row_start (qnb a) i + j)%nat in
    (pos < length (flat (qnb a)))%nat /\ (fst (nth pos (flat (qnb a)) (0%nat, 0%Q)) < N)%nat.
Proof.
  intros Ha i j Hi Hj pos. pose proof (ok_lennb a N Ha) as L.
  assert (Hj' : (j < length (nth i (qnb a) []))%nat).
  { unfold counts in Hj. rewrite (nth_indep _ 0%nat (length (@nil (nat * Q)))) in Hj by (rewrite map_length; lia).
    rewrite map_nth in Hj. exact Hj. }
  destruct (flat_access (0%nat, 0%Q) (qnb a) i j ltac:(lia) Hj') as [B E]. split; [exact B|].
  unfold pos. rewrite E. destruct (nth j (nth i (qnb a) []) (0%nat, 0%Q)) as [n J] eqn:En.
  apply (ok_bound a N Ha i n J). rewrite <- En. apply nth_In, Hj'.
Qed.

(* states[i * len_state + j] of the result block of num_anneals * len_state ints *)
Theorem states_access num len i j : (i < num)%nat -> (j < len)%nat -> (i * len + j < num * len)%nat.
Proof. intros Hi Hj. nia. Qed.

(* the spin picked by a step is a valid position of state[] and flip_spin_dE[] *)
Theorem picked_index_ok (io : bool) (r : rng) (j N : nat) (r' : rng) (i : nat) :
  (if io then Some (r, j) else rand_int r N) = Some (r', i) -> (j < N)%nat -> (i < N)%nat.
Proof. destruct io; intros H Hj; [injection H as _ <-; exact Hj| eapply rand_int_lt, H]. Qed.

(* the general kernel: terms[] is the flattened list of keys; every label read from it is a valid spin when the keys are *)
Theorem puso_access (keys : list (list nat)) len : (forall k, In k keys -> forall l, In l k -> (l < len)%nat) ->
  forall t j, (t < length keys)%nat -> (j < nth t (counts keys) 0%nat)%nat ->
    let pos := (row_start keys t + j)%nat in
    (pos < length (flat keys))%nat /\ (nth pos (flat keys) 0%nat < len)%nat.
Proof.
  intros Hk t j Ht Hj pos.
  assert (Hj' : (j < length (nth t keys []))%nat).
  { unfold counts in Hj. rewrite (nth_indep _ 0%nat (length (@nil nat))) in Hj by (rewrite map_length; exact Ht).
    rewrite map_nth in Hj. exact Hj. }
  destruct (flat_access 0%nat keys t j Ht Hj') as [B E]. split; [exact B|]. unfold pos. rewrite E.
  apply (Hk (nth t keys [])); [apply nth_In, Ht| apply nth_In, Hj'].
Qed.
