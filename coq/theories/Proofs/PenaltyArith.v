(* Arithmetic facts behind the penalty gadgets of PCBO: integrality, the AND / OR / implication
   gadgets, binary and unary representability of slack values. *)
From QV.Model Require Import Base Extrema PCBO.
From Coq Require Import Lia Lqa Qfield Qround.
Open Scope Q_scope.

Definition is_int (p : Q) : Prop := exists z : Z, p == inject_Z z.
Definition is_bool (v : Q) : Prop := v == 0 \/ v == 1.

Lemma is_int_Z z : is_int (inject_Z z).
Proof. exists z. reflexivity. Qed.
Lemma is_int_plus a b : is_int a -> is_int b -> is_int (a + b).
Proof. intros [x Hx] [y Hy]. exists (x + y)%Z. rewrite Hx, Hy, inject_Z_plus. reflexivity. Qed.
Lemma is_int_opp a : is_int a -> is_int (- a).
Proof. intros [x Hx]. exists (- x)%Z. rewrite Hx, inject_Z_opp. reflexivity. Qed.
Lemma is_int_mult a b : is_int a -> is_int b -> is_int (a * b).
Proof. intros [x Hx] [y Hy]. exists (x * y)%Z. rewrite Hx, Hy, inject_Z_mult. reflexivity. Qed.
Lemma is_int_ext a b : a == b -> is_int a -> is_int b.
Proof. intros H [x Hx]. exists x. rewrite <- H. exact Hx. Qed.
Lemma is_bool_int v : is_bool v -> is_int v.
Proof. intros [H|H]; [exists 0%Z| exists 1%Z]; rewrite H; reflexivity. Qed.

Lemma inject_Z_le_iff a b : inject_Z a <= inject_Z b <-> (a <= b)%Z.
Proof. rewrite <- Zle_Qle. reflexivity. Qed.
Lemma inject_Z_lt_iff a b : inject_Z a < inject_Z b <-> (a < b)%Z.
Proof. rewrite <- Zlt_Qlt. reflexivity. Qed.

(* an integer that is positive is at least one, etc. *)
Lemma int_pos_ge1 p : is_int p -> 0 < p -> 1 <= p.
Proof.
  intros [z Hz] H. rewrite Hz in H |- *. change (inject_Z 0 < inject_Z z) in H. rewrite <- Zlt_Qlt in H. change (inject_Z 1 <= inject_Z z). rewrite <- Zle_Qle. lia.
Qed.
Lemma int_neg_le_m1 p : is_int p -> p < 0 -> p <= -(1).
Proof.
  intros [z Hz] H. rewrite Hz in H |- *. change (inject_Z z < inject_Z 0) in H. rewrite <- Zlt_Qlt in H. change (inject_Z z <= inject_Z (-1)). rewrite <- Zle_Qle. lia.
Qed.
Lemma int_nonzero_sq p : is_int p -> ~ p == 0 -> 1 <= p * p.
Proof.
  intros Hi Hn. destruct (Q_dec p 0) as [[H|H]|H]; [| |contradiction].
  - pose proof (int_neg_le_m1 p Hi H). nra.
  - pose proof (int_pos_ge1 p Hi H). nra.
Qed.
Lemma int_nonneg_nonzero p : is_int p -> 0 <= p -> ~ p == 0 -> 1 <= p.
Proof.
  intros Hi H0 Hn. apply int_pos_ge1; [exact Hi|]. destruct (Qlt_le_dec 0 p); [assumption|].
  exfalso. apply Hn. lra.
Qed.
Lemma int_le_lt p : is_int p -> ~ p <= 0 -> 1 <= p.
Proof. intros Hi H. apply int_pos_ge1; [exact Hi|]. destruct (Qlt_le_dec 0 p); [assumption| contradiction]. Qed.

(* p (p + 1) / 2 for an integer p: zero iff p in {-1, 0}, at least one otherwise *)
Lemma tri_nonneg p : is_int p -> 0 <= p * (p + 1) / 2.
Proof.
  intros Hi. destruct (Qlt_le_dec p 0) as [H|H].
  - pose proof (int_neg_le_m1 p Hi H) as H1.
    assert (H2 : 0 <= (- p) * (- (p + 1))) by (apply Qmult_le_0_compat; lra).
    assert (H3 : p * (p + 1) == (- p) * (- (p + 1))) by ring. unfold Qdiv. rewrite H3.
    apply Qmult_le_0_compat; [exact H2| discriminate].
  - assert (H2 : 0 <= p * (p + 1)) by (apply Qmult_le_0_compat; lra).
    unfold Qdiv. apply Qmult_le_0_compat; [exact H2| discriminate].
Qed.
Lemma tri_zero p : p == 0 \/ p == -(1) -> p * (p + 1) / 2 == 0.
Proof. intros [H|H]; rewrite H; field. Qed.
Lemma tri_ge1 p : is_int p -> 1 <= p -> 1 <= p * (p + 1) / 2.
Proof.
  intros Hi H. assert (H2 : 1 * 2 <= p * (p + 1)) by (apply Qmult_le_compat_nonneg; split; lra).
  apply Qle_shift_div_l; [lra| exact H2].
Qed.

(* ---- boolean gadgets ---- *)
Ltac bool_cases :=
  repeat match goal with H : is_bool _ |- _ => destruct H as [H|H] end.

(* 3a + bc - 2a(b + c) *)
Lemma and_gadget_facts a b c : is_bool a -> is_bool b -> is_bool c ->
  let G := 3 * a + b * c - 2 * a * (b + c) in
  0 <= G /\ (a == b * c -> G == 0) /\ (~ a == b * c -> 1 <= G).
Proof.
  intros Ha Hb Hc. cbv zeta. bool_cases; rewrite Ha, Hb, Hc; (split; [lra|]); split; intros H; try lra;
    try (exfalso; apply H; ring); try (exfalso; revert H; lra).
Qed.
(* (1 - x)(1 - y) = 1 - OR(x, y) *)
Lemma or_gadget_facts x y : is_bool x -> is_bool y ->
  let G := 1 - (x + y * (1 - x)) in
  0 <= G /\ (1 <= x + y -> G == 0) /\ (~ 1 <= x + y -> 1 <= G).
Proof.
  intros Hx Hy. cbv zeta. bool_cases; rewrite Hx, Hy; (split; [lra|]); split; intros H; try lra; exfalso; apply H; lra.
Qed.
(* x (1 - y) *)
Lemma implies_gadget_facts x y : is_bool x -> is_bool y ->
  let G := x * (1 - y) in
  0 <= G /\ (x - y <= 0 -> G == 0) /\ (~ x - y <= 0 -> 1 <= G).
Proof.
  intros Hx Hy. cbv zeta. bool_cases; rewrite Hx, Hy; (split; [lra|]); split; intros H; try lra; exfalso; apply H; lra.
Qed.

(* a monomial of booleans is a boolean *)
Lemma mon_is_bool e k : boolean_env e -> is_bool (mon e k).
Proof.
  intros He. unfold is_bool. induction k as [|i k IH]; simpl; [right; reflexivity|].
  destruct (He i) as [H|H], IH as [H'|H']; rewrite H, H'; [left|left|left|right]; ring.
Qed.

(* ---- representability of slack values ---- *)
(* sum_{i < n} v_i a_i with v_i = 2^i (log) or 1 (unary) *)
Fixpoint slack_val (log_trick : bool) (a : nat -> Q) (n i : nat) : Q :=
  match n with O => 0 | S n' => (if log_trick then pow2 i else 1) * a i + slack_val log_trick a n' (S i) end.

Lemma pow2_pos i : 0 < pow2 i.
Proof. induction i; simpl; lra. Qed.
Lemma pow2_int i : is_int (pow2 i).
Proof. induction i; simpl; [exists 1%Z; reflexivity|]. apply is_int_mult; [exists 2%Z; reflexivity| assumption]. Qed.

Lemma slack_val_nonneg lt a n : (forall j, is_bool (a j)) -> forall i, 0 <= slack_val lt a n i.
Proof.
  intros Ha. induction n as [|n IH]; intros i; simpl; [lra|].
  specialize (IH (S i)). pose proof (pow2_pos i). destruct (Ha i) as [H0|H0]; rewrite H0; destruct lt; lra.
Qed.
Lemma slack_val_int lt a n : (forall j, is_bool (a j)) -> forall i, is_int (slack_val lt a n i).
Proof.
  intros Ha. induction n as [|n IH]; intros i; simpl; [exists 0%Z; reflexivity|].
  apply is_int_plus; [|apply IH]. apply is_int_mult; [destruct lt; [apply pow2_int| exists 1%Z; reflexivity]| apply is_bool_int, Ha].
Qed.

(* unary: every integer 0 <= t <= n is a sum of n bits *)
Lemma unary_repr n : forall i (t : Z), (0 <= t <= Z.of_nat n)%Z ->
  exists a : nat -> Q, (forall j, is_bool (a j)) /\ slack_val false a n i == inject_Z t.
Proof.
  induction n as [|n IH]; intros i t Ht.
  - exists (fun _ => 0). split; [intros j; left; reflexivity|]. simpl. assert (t = 0%Z) as -> by lia. reflexivity.
  - destruct (Z.eq_dec t 0) as [->|Hne].
    + exists (fun _ => 0). split; [intros j; left; reflexivity|]. clear. simpl.
      assert (G : forall m k, slack_val false (fun _ => 0) m k == 0) by (induction m; intros k; simpl; [reflexivity| rewrite IHm; ring]).
      rewrite G. ring.
    + destruct (IH (S i) (t - 1)%Z) as (a & Ha & Hs); [lia|].
      exists (fun j => if Nat.eqb j i then 1 else a j). split.
      * intros j. destruct (Nat.eqb j i); [right; reflexivity| apply Ha].
      * simpl. rewrite Nat.eqb_refl.
        assert (G : forall m k, (i < k)%nat -> slack_val false (fun j => if Nat.eqb j i then 1 else a j) m k == slack_val false a m k).
        { induction m; intros k Hk; simpl; [reflexivity|]. rewrite IHm by lia.
          destruct (Nat.eqb_spec k i); [lia| reflexivity]. }
        rewrite G by lia. rewrite Hs. unfold Z.sub. rewrite inject_Z_plus, inject_Z_opp. ring.
Qed.

(* binary: every integer 0 <= t <= 2^n - 1 is a sum of bits with weights 2^i, ..., 2^(i+n-1) scaled *)
Lemma pow2_S i : pow2 (S i) == 2 * pow2 i.
Proof. reflexivity. Qed.

Lemma binary_repr n : forall i (t : Z), (0 <= t < 2 ^ Z.of_nat n)%Z ->
  exists a : nat -> Q, (forall j, is_bool (a j)) /\ slack_val true a n i == pow2 i * inject_Z t.
Proof.
  induction n as [|n IH]; intros i t Ht.
  - exists (fun _ => 0). split; [intros j; left; reflexivity|]. simpl in *. assert (t = 0%Z) as -> by lia. ring.
  - rewrite Nat2Z.inj_succ, Z.pow_succ_r in Ht by lia.
    destruct (IH (S i) (t / 2)%Z) as (a & Ha & Hs).
    { split; [apply Z.div_pos; lia| apply Z.div_lt_upper_bound; lia]. }
    exists (fun j => if Nat.eqb j i then inject_Z (t mod 2) else a j). split.
    + intros j. destruct (Nat.eqb j i); [|apply Ha].
      pose proof (Z.mod_pos_bound t 2 ltac:(lia)) as Hm.
      assert (t mod 2 = 0 \/ t mod 2 = 1)%Z as [->| ->] by lia; [left|right]; reflexivity.
    + simpl. rewrite Nat.eqb_refl.
      assert (G : forall m k, (i < k)%nat ->
                slack_val true (fun j => if Nat.eqb j i then inject_Z (t mod 2) else a j) m k == slack_val true a m k).
      { induction m; intros k Hk; simpl; [reflexivity|]. rewrite IHm by lia.
        destruct (Nat.eqb_spec k i); [lia| reflexivity]. }
      rewrite G by lia. rewrite Hs, pow2_S.
      rewrite (Z.div_mod t 2) at 3 by lia. rewrite inject_Z_plus, inject_Z_mult. ring.
Qed.

(* bit_length z = n gives z < 2^n *)
Lemma bit_length_pos_bound p : (Zpos p < 2 ^ Z.of_nat (bit_length_pos p))%Z.
Proof.
  induction p as [p IH|p IH|]; cbn [bit_length_pos]; rewrite ?Nat2Z.inj_succ, ?Z.pow_succ_r by lia; try lia; simpl; lia.
Qed.
Lemma bit_length_bound z : (0 <= z)%Z -> (z < 2 ^ Z.of_nat (bit_length z))%Z.
Proof.
  destruct z as [|p|p]; simpl; intros H; [lia| apply bit_length_pos_bound| lia].
Qed.

(* num_bits(val, log_trick): enough bits for every integer 0 <= t <= val *)
Lemma num_bits_enough val lt n : num_bits val lt = Ok n ->
  forall t : Z, (0 <= t)%Z -> inject_Z t <= val ->
  if lt then (t < 2 ^ Z.of_nat n)%Z else (t <= Z.of_nat n)%Z.
Proof.
  unfold num_bits. destruct (Qlt_le_dec val 0) as [H|H]; [discriminate|]. intros [= <-] t Ht Htv.
  assert (Hc : (t <= qceil val)%Z).
  { unfold qceil. assert (inject_Z t <= val) by exact Htv.
    assert (- val <= inject_Z (- t)) by (rewrite inject_Z_opp; lra).
    pose proof (Qfloor_resp_le _ _ H1). rewrite Qfloor_Z in H2. lia. }
  assert (Hc0 : (0 <= qceil val)%Z) by lia.
  destruct lt.
  - pose proof (bit_length_bound _ Hc0). lia.
  - rewrite Z2Nat.id by lia. exact Hc.
Qed.
