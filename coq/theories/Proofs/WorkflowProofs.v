(* C08: objective + penalties: every minimiser of the penalised function is a feasible minimiser of the objective *)
From QV.Model Require Import Base Matrix Arith Expr Extrema Sat PCBO.
From QV.Proofs Require Import BaseProofs KeyProofs ArithProofs PenaltyArith PCBOProofs.
From Coq Require Import Lia Lqa.
Open Scope Q_scope.

Fixpoint sumn (n : nat) (g : nat -> Q) : Q := match n with O => 0 | S n' => sumn n' g + g n' end.
Lemma sumn_nonneg n g : (forall j, (j < n)%nat -> 0 <= g j) -> 0 <= sumn n g.
Proof. induction n as [|n IH]; simpl; intros H; [lra|]. specialize (IH (fun j Hj => H j (Nat.lt_lt_succ_r _ _ Hj))). specialize (H n (Nat.lt_succ_diag_r n)). lra. Qed.
Lemma sumn_ge_one n g j : (forall i, (i < n)%nat -> 0 <= g i) -> (j < n)%nat -> g j <= sumn n g.
Proof.
  induction n as [|n IH]; simpl; intros H Hj; [lia|].
  assert (H' : forall i, (i < n)%nat -> 0 <= g i) by (intros i Hi; apply H; lia).
  destruct (Nat.eq_dec j n) as [->|Hne].
  - pose proof (sumn_nonneg n g H'). lra.
  - specialize (IH H' ltac:(lia)). specialize (H n (Nat.lt_succ_diag_r n)). lra.
Qed.
Lemma sumn_zero n g : (forall j, (j < n)%nat -> g j == 0) -> sumn n g == 0.
Proof. induction n as [|n IH]; simpl; intros H; [reflexivity|]. rewrite IH, (H n); [ring| lia| intros j Hj; apply H; lia]. Qed.

Section Workflow.
  (* objective f; n constraints: constraint j holds at x iff R j x, has weight lam j and penalty function G j, and owns
     the ancilla labels fr j *)
  Variable f : env -> Q.
  Variable n : nat.
  Variables (G : nat -> env -> Q) (lam : nat -> Q) (R : nat -> env -> Prop) (fr : nat -> label -> Prop).
  Variable W : Q.

  Definition anyfr (l : label) : Prop := exists j, (j < n)%nat /\ fr j l.
  Definition H (x : env) : Q := f x + sumn n (fun j => lam j * G j x).

  Hypothesis G_nonneg : forall j x, (j < n)%nat -> boolean_env x -> 0 <= G j x.
  Hypothesis G_sat : forall j x, (j < n)%nat -> boolean_env x -> R j x ->
    exists x', boolean_env x' /\ agree_off (fr j) x x' /\ G j x' == 0.
  Hypothesis G_unsat : forall j x, (j < n)%nat -> boolean_env x -> ~ R j x -> 1 <= G j x.
  Hypothesis R_dec : forall j x, R j x \/ ~ R j x.
  (* objective and constraints do not look at ancillas; a penalty does not look at the ancillas of LATER constraints *)
  Hypothesis f_indep : forall x x', boolean_env x -> boolean_env x' -> agree_off anyfr x x' -> f x == f x'.
  Hypothesis R_indep : forall j x x', (j < n)%nat -> boolean_env x -> boolean_env x' -> agree_off anyfr x x' -> (R j x <-> R j x').
  Hypothesis G_later : forall i j x x', (i < j)%nat -> (j < n)%nat -> boolean_env x -> boolean_env x' ->
    agree_off (fr j) x x' -> G i x == G i x'.
  (* weights exceed the spread of the objective *)
  Hypothesis W_spread : forall x x', boolean_env x -> boolean_env x' -> f x - f x' <= W.
  Hypothesis lam_big : forall j, (j < n)%nat -> W < lam j.

  Lemma W_nonneg : (exists x, boolean_env x) -> 0 <= W.
  Proof. intros [x Hx]. specialize (W_spread x x Hx Hx). lra. Qed.

  Lemma agree_off_any j x x' : (j < n)%nat -> agree_off (fr j) x x' -> agree_off anyfr x x'.
  Proof. intros Hj Ha l Hl. apply Ha. intros Hf. apply Hl. exists j. auto. Qed.
  Lemma agree_off_trans (S : label -> Prop) a b c : agree_off S a b -> agree_off S b c -> agree_off S a c.
  Proof. intros H1 H2 l Hl. rewrite (H2 l Hl). apply H1, Hl. Qed.

  (* a feasible assignment can be completed, one constraint after the other, so that every penalty vanishes *)
  Lemma zero_all : forall k x, (k <= n)%nat -> boolean_env x -> (forall j, (j < n)%nat -> R j x) ->
    exists x', boolean_env x' /\ agree_off anyfr x x' /\ forall j, (j < k)%nat -> G j x' == 0.
  Proof.
    induction k as [|k IH]; intros x Hk Hx HR.
    - exists x. split; [exact Hx|]. split; [apply agree_off_refl| intros j Hj; lia].
    - destruct (IH x ltac:(lia) Hx HR) as (x1 & Hx1 & A1 & Z1).
      assert (HRk : R k x1) by (apply (R_indep k x x1 ltac:(lia) Hx Hx1 A1), HR; lia).
      destruct (G_sat k x1 ltac:(lia) Hx1 HRk) as (x2 & Hx2 & A2 & Z2).
      exists x2. split; [exact Hx2|]. split; [eapply agree_off_trans; [exact A1| apply (agree_off_any k); [lia| exact A2]]|].
      intros j Hj. destruct (Nat.eq_dec j k) as [->|Hne]; [exact Z2|].
      rewrite <- (G_later j k x1 x2 ltac:(lia) ltac:(lia) Hx1 Hx2 A2). apply Z1. lia.
  Qed.

  Lemma H_ge_f x : boolean_env x -> f x <= H x.
  Proof.
    intros Hx. unfold H.
    assert (0 <= sumn n (fun j => lam j * G j x)); [|lra].
    apply sumn_nonneg. intros j Hj. apply Qmult_le_0_compat; [|apply G_nonneg; assumption].
    pose proof (lam_big j Hj). pose proof (W_nonneg (ex_intro _ x Hx)). lra.
  Qed.

  Theorem minimiser_feasible_optimal x0 xs :
    boolean_env x0 -> (forall j, (j < n)%nat -> R j x0) ->
    boolean_env xs -> (forall x, boolean_env x -> H xs <= H x) ->
    (forall j, (j < n)%nat -> R j xs) /\
    (forall x, boolean_env x -> (forall j, (j < n)%nat -> R j x) -> f xs <= f x) /\
    H xs == f xs.
  Proof.
    intros Hx0 HR0 Hxs Hmin.
    assert (Up : forall x, boolean_env x -> (forall j, (j < n)%nat -> R j x) -> H xs <= f x).
    { intros x Hx HR. destruct (zero_all n x (Nat.le_refl n) Hx HR) as (x' & Hx' & A & Z).
      rewrite (f_indep x x' Hx Hx' A). eapply Qle_trans; [apply (Hmin x' Hx')|]. unfold H.
      rewrite sumn_zero; [lra|]. intros j Hj. rewrite (Z j Hj). ring. }
    assert (Feas : forall j, (j < n)%nat -> R j xs).
    { intros j Hj. destruct (R_dec j xs) as [Hr|Hn]; [exact Hr|]. exfalso.
      pose proof (G_unsat j xs Hj Hxs Hn) as G1. pose proof (lam_big j Hj) as Lb.
      pose proof (W_nonneg (ex_intro _ xs Hxs)) as W0.
      assert (S1 : lam j * G j xs <= sumn n (fun i => lam i * G i xs)).
      { apply (sumn_ge_one n (fun i => lam i * G i xs) j); [|exact Hj]. intros i Hi.
        apply Qmult_le_0_compat; [pose proof (lam_big i Hi); lra| apply G_nonneg; assumption]. }
      assert (S2 : lam j <= lam j * G j xs).
      { rewrite <- (Qmult_1_r (lam j)) at 1. apply Qmult_le_l; [lra| exact G1]. }
      pose proof (Up x0 Hx0 HR0) as U. unfold H in U. pose proof (W_spread x0 xs Hx0 Hxs). lra. }
    split; [exact Feas|]. split.
    - intros x Hx HR. eapply Qle_trans; [apply H_ge_f, Hxs| apply Up; assumption].
    - apply Qle_antisym; [apply Up; assumption| apply H_ge_f, Hxs].
  Qed.
End Workflow.

(* ---- one comparison constraint on a PCBO that holds an objective ---- *)
Lemma rel_prop_dec r v : rel_prop r v \/ ~ rel_prop r v.
Proof.
  destruct r; simpl.
  - destruct (Qeq_dec v 0); auto.
  - destruct (Qeq_dec v 0); [right; intros Hn; apply Hn; assumption| left; assumption].
  - destruct (Qlt_le_dec v 0); [left; assumption| right; intros Hn; lra].
  - destruct (Qlt_le_dec 0 v); [right; intros Hn; lra| left; assumption].
  - destruct (Qlt_le_dec 0 v); [left; assumption| right; intros Hn; lra].
  - destruct (Qlt_le_dec v 0); [right; intros Hn; lra| left; assumption].
Qed.

Theorem workflow_one r m Pin lam lt b m' w t W x0 xs :
  add_constraint r m Pin lam lt b = Ok (m', w, t) -> bkind (kd m) -> w <> WUnsat ->
  let f := fun x => eval x (tm m) in
  let pv := fun x => eval x Pin in
  int_v pv -> bvalid pv b -> no_anc Pin -> no_anc (tm m) ->
  (forall x x', boolean_env x -> boolean_env x' -> f x - f x' <= W) -> W < lam ->
  boolean_env x0 -> rel_prop r (pv x0) ->
  boolean_env xs -> (forall x, boolean_env x -> eval xs (tm m') <= eval x (tm m')) ->
  rel_prop r (pv xs) /\
  (forall x, boolean_env x -> rel_prop r (pv x) -> f xs <= f x) /\
  eval xs (tm m') == f xs.
Proof.
  intros Hadd Hk Hw f pv Hint Hb HnaP Hnam HW Hlam Hx0 HR0 Hxs Hmin.
  assert (W0 : 0 <= W) by (specialize (HW x0 x0 Hx0 Hx0); lra).
  assert (Hl0 : ~ lam == 0) by (intros E; rewrite E in Hlam; lra).
  destruct (add_constraint_spec _ _ _ _ _ _ _ _ _ Hadd Hk Hl0 Hint Hb (fun n => no_anc_indep _ _ _ HnaP))
    as (G & P & _ & Sok & _ & _ & NN & PR).
  destruct (PR Hw) as (PN & PS & PU).
  set (fr := fresh_lbl (anc m) (anc m')).
  assert (HH : forall x, boolean_env x -> eval x (tm m') == H f 1 (fun _ => G) (fun _ => lam) x).
  { intros x Hx. rewrite (Sok x Hx). unfold H. simpl. fold (f x). ring. }
  assert (Any : forall x x', agree_off (anyfr 1 (fun _ => fr)) x x' -> agree_off fr x x').
  { intros x x' Ha l Hl. apply Ha. intros (j & _ & Hf). apply Hl, Hf. }
  destruct (minimiser_feasible_optimal f 1 (fun _ => G) (fun _ => lam) (fun _ x => rel_prop r (pv x)) (fun _ => fr) W) with (x0 := x0) (xs := xs)
    as (F1 & F2 & F3).
  - intros j x _ Hx. apply PN, Hx.
  - intros j x _ Hx HR. destruct (PS x Hx HR) as (x' & A & B0 & C0). exists x'. auto.
  - intros j x _ Hx Hn. apply PU; assumption.
  - intros j x. apply rel_prop_dec.
  - intros x x' Hx Hx' Ha. symmetry. apply (no_anc_indep _ (anc m) (anc m') Hnam x x' Hx Hx' (Any _ _ Ha)).
  - intros j x x' _ Hx Hx' Ha.
    assert (E : pv x == pv x') by (symmetry; apply (no_anc_indep _ (anc m) (anc m') HnaP x x' Hx Hx' (Any _ _ Ha))).
    destruct r; simpl; rewrite E; tauto.
  - intros i j x x' Hij Hj. lia.
  - exact HW.
  - intros j _. exact Hlam.
  - exact Hx0.
  - intros j _. exact HR0.
  - exact Hxs.
  - intros x Hx. rewrite <- (HH xs Hxs), <- (HH x Hx). apply Hmin, Hx.
  - split; [apply (F1 0%nat); lia|]. split.
    + intros x Hx HR. apply F2; [exact Hx| intros j _; exact HR].
    + rewrite (HH xs Hxs). exact F3.
Qed.

(* ---- ... and after degree reduction: a minimiser of the reduced form, converted back ---- *)
From QV.Model Require Import Convert Reduce.
From QV.Proofs Require Import InvProofs ConvertProofs ReduceProofs.

Theorem workflow_reduced r m Pin lam lt b m' w t W x0 out deg l pairs D s :
  add_constraint r m Pin lam lt b = Ok (m', w, t) -> bkind (kd m) -> w <> WUnsat ->
  let f := fun x => eval x (tm m) in
  let pv := fun x => eval x Pin in
  int_v pv -> bvalid pv b -> no_anc Pin -> no_anc (tm m) ->
  (forall x x', boolean_env x -> boolean_env x' -> f x - f x' <= W) -> W < lam ->
  boolean_env x0 -> rel_prop r (pv x0) ->
  reduce_degree m' out deg l pairs = Ok D -> bmat out -> Inv m' -> is_labelled (kd m') = true ->
  (forall ms, mapped_self (mp m') (tm m') = Ok ms -> forall k v, In (k, v) ms -> Qabs v <= lam_fun l v) ->
  boolean_env s -> (forall s', boolean_env s' -> eval s (tm D) <= eval s' (tm D)) ->
  let xs := pull (mp m') s in
  rel_prop r (pv xs) /\ (forall x, boolean_env x -> rel_prop r (pv x) -> f xs <= f x) /\ eval s (tm D) == f xs.
Proof.
  intros Hadd Hk Hw f pv Hint Hb HnaP Hnam HW Hlam Hx0 HR0 HD Hbm HI Hl Hpen Hs Hmin xs.
  destruct (reduce_minimiser _ _ _ _ _ _ HD Hbm HI Hl Hpen s Hs Hmin) as [E Mx]. fold xs in E, Mx.
  destruct (workflow_one r m Pin lam lt b m' w t W x0 xs Hadd Hk Hw Hint Hb HnaP Hnam HW Hlam Hx0 HR0 (pull_bool _ _ Hs) Mx)
    as (A & B0 & C0).
  split; [exact A|]. split; [exact B0|]. rewrite <- E. exact C0.
Qed.
