(* Which labels can occur in a model: every operation of the Matrix / arithmetic layer, and the expression
   interpreter on top of it, only produces keys over labels of its operands. *)
From QV.Model Require Import Base Matrix Arith Expr.
From QV.Proofs Require Import BaseProofs KeyProofs ArithProofs InvProofs.
Open Scope Q_scope.

Definition LP (P : label -> Prop) (t : terms) : Prop := forall k v i, In (k, v) t -> In i k -> P i.
Definition KP (P : label -> Prop) (k : key) : Prop := forall i, In i k -> P i.
Definition OP (P : label -> Prop) (o : operand) : Prop :=
  match o with OModel b => LP P (tm b) | ORaw t => LP P t | OScalar _ => True end.

Lemma LP_nil P : LP P []. Proof. intros k v i []. Qed.
Lemma LP_neg P t : LP P t -> LP P (neg_terms t).
Proof.
  intros H k v i Hin Hi. unfold neg_terms in Hin. apply in_map_iff in Hin. destruct Hin as ([k0 v0] & E & Hin).
  injection E as <- _. eapply H; eassumption.
Qed.
Lemma KP_app P a b : KP P a -> KP P b -> KP P (a ++ b).
Proof. intros Ha Hb i Hi. apply in_app_or in Hi. destruct Hi; auto. Qed.
Lemma KP_nil P : KP P []. Proof. intros i []. Qed.

Lemma m_setitem_LP P m k v m' : LP P (tm m) -> KP P k -> m_setitem m k v = Ok m' -> LP P (tm m').
Proof.
  intros H Hk E. destruct (m_setitem_spec _ _ _ _ E) as (k' & Hs & Ht & _). rewrite Ht.
  intros k0 v0 i Hin Hi. apply set_sq_In in Hin. destruct Hin as [[-> _]|Hin]; [|eapply H; eassumption].
  apply Hk. eapply squash_In; eassumption.
Qed.
Lemma m_additem_LP P m k v m' : LP P (tm m) -> KP P k -> m_additem m k v = Ok m' -> LP P (tm m').
Proof. unfold m_additem. intros H Hk E. inv_bind E. eapply m_setitem_LP; eassumption. Qed.
Lemma m_addall_LP P o : forall m m', LP P (tm m) -> LP P o -> m_addall m o = Ok m' -> LP P (tm m').
Proof.
  induction o as [|[k v] o IH]; simpl; intros m m' H Ho E; [injection E as <-; exact H|]. inv_bind E.
  eapply IH; [| |exact E].
  - eapply m_additem_LP; [exact H| |exact E0]. intros i Hi. eapply Ho; [left; reflexivity| exact Hi].
  - intros k0 v0 i Hin Hi. eapply Ho; [right; exact Hin| exact Hi].
Qed.
Lemma m_create_LP P kd0 o m : LP P o -> m_create kd0 o = Ok m -> LP P (tm m).
Proof. unfold m_create. intros Ho E. eapply (m_addall_LP P o (empty_model kd0) m); [intros k v i []| exact Ho| exact E]. Qed.
Lemma m_copy_LP P m c : LP P (tm m) -> m_copy m = Ok c -> LP P (tm c).
Proof. unfold m_copy. intros H E. inv_bind E. injection E as <-. simpl. eapply m_create_LP; eassumption. Qed.
Lemma clear_for_imul_LP P m : LP P (tm (clear_for_imul m)).
Proof. unfold clear_for_imul. destruct (kd m); simpl; apply LP_nil. Qed.
Lemma m_mul_row_LP P k v o : forall m m', LP P (tm m) -> KP P k -> LP P o -> m_mul_row m k v o = Ok m' -> LP P (tm m').
Proof.
  induction o as [|[ko vo] o IH]; simpl; intros m m' H Hk Ho E; [injection E as <-; exact H|]. inv_bind E.
  eapply IH; [|exact Hk| |exact E].
  - eapply m_additem_LP; [exact H| |exact E0]. apply KP_app; [exact Hk|]. intros i Hi. eapply Ho; [left; reflexivity| exact Hi].
  - intros k0 v0 i Hin Hi. eapply Ho; [right; exact Hin| exact Hi].
Qed.
Lemma m_mul_rows_LP P o items : forall m m', LP P (tm m) -> LP P items -> LP P o -> m_mul_rows m items o = Ok m' -> LP P (tm m').
Proof.
  induction items as [|[k v] items IH]; simpl; intros m m' H Hi Ho E; [injection E as <-; exact H|]. inv_bind E.
  eapply IH; [| |exact Ho|exact E].
  - eapply m_mul_row_LP; [exact H| |exact Ho|exact E0]. intros i Hin. eapply Hi; [left; reflexivity| exact Hin].
  - intros k0 v0 i Hin Hi0. eapply Hi; [right; exact Hin| exact Hi0].
Qed.
Lemma m_scale_keys_LP P f ks : forall m m', LP P (tm m) -> (forall k, In k ks -> KP P k) -> m_scale_keys m ks f = Ok m' -> LP P (tm m').
Proof.
  induction ks as [|k ks IH]; simpl; intros m m' H Hk E; [injection E as <-; exact H|]. inv_bind E. inv_bind E.
  eapply IH; [| |exact E].
  - eapply m_setitem_LP; [exact H| apply Hk; left; reflexivity| exact E1].
  - intros k0 Hin. apply Hk. right. exact Hin.
Qed.
Lemma m_scale_LP P f m m' : LP P (tm m) -> m_scale m f = Ok m' -> LP P (tm m').
Proof.
  unfold m_scale. intros H E. eapply m_scale_keys_LP; [exact H| |exact E].
  intros k Hin i Hi. apply in_map_iff in Hin. destruct Hin as ([k0 v0] & <- & Hin). eapply H; eassumption.
Qed.
Lemma m_iadd_LP P m o m' : LP P (tm m) -> OP P o -> m_iadd m o = Ok m' -> LP P (tm m').
Proof.
  destruct o; simpl; intros H Ho E; [eapply m_addall_LP; [exact H| exact Ho| exact E]| eapply m_addall_LP; [exact H| exact Ho| exact E]|].
  eapply m_additem_LP; [exact H| apply KP_nil| exact E].
Qed.
Lemma m_isub_LP P m o m' : LP P (tm m) -> OP P o -> m_isub m o = Ok m' -> LP P (tm m').
Proof.
  destruct o; simpl; intros H Ho E; [eapply m_addall_LP; [exact H| apply LP_neg, Ho| exact E]| eapply m_addall_LP; [exact H| apply LP_neg, Ho| exact E]|].
  eapply m_additem_LP; [exact H| apply KP_nil| exact E].
Qed.
Lemma m_imul_LP P m o m' : LP P (tm m) -> OP P o -> m_imul m o = Ok m' -> LP P (tm m').
Proof.
  destruct o; simpl; intros H Ho E.
  - eapply m_mul_rows_LP; [apply clear_for_imul_LP| exact H| exact Ho| exact E].
  - eapply m_mul_rows_LP; [apply clear_for_imul_LP| exact H| exact Ho| exact E].
  - eapply m_scale_LP; eassumption.
Qed.
Lemma m_itruediv_LP P m c m' : LP P (tm m) -> m_itruediv m c = Ok m' -> LP P (tm m').
Proof. unfold m_itruediv. apply m_scale_LP. Qed.
Lemma m_pow_loop_LP P old n : forall m m', LP P (tm m) -> LP P (tm old) -> m_pow_loop m old n = Ok m' -> LP P (tm m').
Proof.
  induction n as [|n IH]; cbn [m_pow_loop]; intros m m' H Ho E; [injection E as <-; exact H|].
  destruct (m_imul m (OModel old)) as [a|] eqn:E1; cbn [bind] in E; [|discriminate].
  eapply IH; [|exact Ho|exact E]. apply (m_imul_LP P m (OModel old) a H Ho E1).
Qed.
Lemma m_ipow_LP P m n m' : LP P (tm m) -> m_ipow m n = Ok m' -> LP P (tm m').
Proof.
  unfold m_ipow. intros H E. destruct (n <=? 0)%Z; [discriminate|]. destruct (n =? 1)%Z; [injection E as <-; exact H|].
  inv_bind E. eapply m_pow_loop_LP; [exact H| eapply m_copy_LP; eassumption| exact E].
Qed.

Lemma apply_bop_LP P ip o m v r : LP P (tm m) -> OP P v -> apply_bop ip o m v = Ok r -> LP P (tm r).
Proof.
  intros H Hv E. destruct o, ip; cbn [apply_bop] in E;
    first [eapply m_iadd_LP; eassumption | eapply m_isub_LP; eassumption | eapply m_imul_LP; eassumption | idtac].
  - unfold m_add in E. inv_bind E. eapply m_iadd_LP; [eapply m_copy_LP; eassumption| exact Hv| exact E].
  - unfold m_sub in E. inv_bind E. eapply m_isub_LP; [eapply m_copy_LP; eassumption| exact Hv| exact E].
  - unfold m_mul in E. inv_bind E. eapply m_imul_LP; [eapply m_copy_LP; eassumption| exact Hv| exact E].
Qed.
Lemma m_neg_LP P m r : LP P (tm m) -> m_neg m = Ok r -> LP P (tm r).
Proof. unfold m_neg. intros H E. apply (apply_bop_LP P false OpMul m (OScalar (-(1))) r H I E). Qed.

Lemma m_add_LP P m o r : LP P (tm m) -> OP P o -> m_add m o = Ok r -> LP P (tm r).
Proof. intros H Ho E. apply (apply_bop_LP P false OpAdd m o r H Ho E). Qed.
Lemma m_mul_LP P m o r : LP P (tm m) -> OP P o -> m_mul m o = Ok r -> LP P (tm r).
Proof. intros H Ho E. apply (apply_bop_LP P false OpMul m o r H Ho E). Qed.
Lemma m_rsub_LP P m o r : LP P (tm m) -> OP P o -> m_rsub m o = Ok r -> LP P (tm r).
Proof. unfold m_rsub. intros H Ho E. inv_bind E. eapply m_add_LP; [eapply m_neg_LP; eassumption| exact Ho| exact E]. Qed.
Lemma apply_rbop_LP P o m v r : LP P (tm m) -> OP P v -> apply_rbop o m v = Ok r -> LP P (tm r).
Proof.
  intros H Hv E. destruct o; cbn [apply_rbop] in E; [eapply m_add_LP| eapply m_rsub_LP| eapply m_mul_LP]; eassumption.
Qed.
Lemma m_pow_LP P m n r : LP P (tm m) -> m_pow m n = Ok r -> LP P (tm r).
Proof. unfold m_pow. intros H E. inv_bind E. eapply m_ipow_LP; [eapply m_copy_LP; eassumption| exact E]. Qed.
Lemma m_truediv_LP P m c r : LP P (tm m) -> m_truediv m c = Ok r -> LP P (tm r).
Proof. unfold m_truediv. intros H E. inv_bind E. eapply m_itruediv_LP; [eapply m_copy_LP; eassumption| exact E]. Qed.

(* labels of the leaves of an expression *)
Fixpoint eLP (P : label -> Prop) (e : expr) : Prop :=
  match e with
  | EModel _ t | ERaw t => LP P t
  | EScalar _ => True
  | EBin _ _ a b => eLP P a /\ eLP P b
  | ESelf _ _ a | ENeg a | EPow _ a _ | EDiv _ a _ => eLP P a
  end.

Theorem interp_LP P e : forall v, eLP P e -> interp e = Ok v -> OP P v.
Proof.
  induction e as [k t|t|c|ip o a IHa b IHb|ip o a IHa|a IHa|ip a IHa n|ip a IHa c]; cbn [interp eLP]; intros v Hl H.
  - inv_bind H. injection H as <-. simpl. eapply m_create_LP; eassumption.
  - injection H as <-. exact Hl.
  - injection H as <-. exact I.
  - destruct Hl as [Hla Hlb]. inv_bind H. inv_bind H.
    pose proof (IHa _ Hla eq_refl) as Pa. pose proof (IHb _ Hlb eq_refl) as Pb. destruct a0 as [ma|ta|ca].
    + inv_bind H. injection H as <-. simpl. eapply apply_bop_LP; [exact Pa| exact Pb| exact E1].
    + destruct a1 as [mb| |]; try discriminate. inv_bind H. injection H as <-. simpl.
      eapply apply_rbop_LP; [exact Pb| exact Pa| exact E1].
    + destruct a1 as [mb| |]; try discriminate. inv_bind H. injection H as <-. simpl.
      eapply apply_rbop_LP; [exact Pb| exact Pa| exact E1].
  - inv_bind H. pose proof (IHa _ Hl eq_refl) as Pa. destruct a0 as [ma| |]; try discriminate. inv_bind H. injection H as <-.
    simpl. eapply apply_bop_LP; [exact Pa| exact Pa| exact E0].
  - inv_bind H. pose proof (IHa _ Hl eq_refl) as Pa. destruct a0 as [ma| |]; try discriminate. inv_bind H. injection H as <-.
    simpl. eapply m_neg_LP; eassumption.
  - inv_bind H. pose proof (IHa _ Hl eq_refl) as Pa. destruct a0 as [ma| |]; try discriminate. inv_bind H. injection H as <-.
    simpl. destruct ip; [eapply m_ipow_LP| eapply m_pow_LP]; eassumption.
  - inv_bind H. pose proof (IHa _ Hl eq_refl) as Pa. destruct a0 as [ma| |]; try discriminate. destruct (qzero c); [discriminate|].
    inv_bind H. injection H as <-. simpl. destruct ip; [eapply m_itruediv_LP| eapply m_truediv_LP]; eassumption.
Qed.
