(* C01 on models renumbered with set_mapping / set_reverse_mapping: the reduction theorems assume Inv only, and a renumbering
   with the model's labels and pairwise different integers below their number keeps Inv (InvProofs.set_mapping_Inv) *)
From QV.Model Require Import Base Matrix Arith Convert Reduce.
From QV.Proofs Require Import BaseProofs KeyProofs ArithProofs InvProofs ConvertProofs PenaltyArith ReduceProofs.
Open Scope Q_scope.

Lemma reduce_extension_renumbered : forall m mpx out deg l pairs D,
  Inv m -> is_labelled (kd m) = true ->
  (forall i, In i (map fst mpx) <-> In i (map fst (mp m))) -> NoDup (map fst mpx) -> snd_ok mpx ->
  reduce_degree (set_mapping m mpx) out deg l pairs = Ok D -> bmat out ->
  forall x, boolean_env x ->
  exists s, boolean_env s /\ (forall l0 n, mp_get l0 mpx = Some n -> s n == x l0) /\ eval s (tm D) == eval x (tm m).
Proof.
  intros m mpx out deg l pairs D HI Hlab Hfst Hnd Hsnd HR Hb x Hx.
  pose proof (set_mapping_Inv m mpx HI Hlab Hfst Hnd Hsnd) as HI'.
  exact (reduce_extension (set_mapping m mpx) out deg l pairs D HR Hb HI' Hlab x Hx).
Qed.

Lemma reduce_minimiser_renumbered : forall m mpx out deg l pairs D,
  Inv m -> is_labelled (kd m) = true ->
  (forall i, In i (map fst mpx) <-> In i (map fst (mp m))) -> NoDup (map fst mpx) -> snd_ok mpx ->
  reduce_degree (set_mapping m mpx) out deg l pairs = Ok D -> bmat out ->
  (forall ms, mapped_self mpx (tm m) = Ok ms -> forall k v, In (k, v) ms -> Qabs v <= lam_fun l v) ->
  forall s, boolean_env s -> (forall s', boolean_env s' -> eval s (tm D) <= eval s' (tm D)) ->
  let x := pull mpx s in
  eval x (tm m) == eval s (tm D) /\ forall x', boolean_env x' -> eval x (tm m) <= eval x' (tm m).
Proof.
  intros m mpx out deg l pairs D HI Hlab Hfst Hnd Hsnd HR Hb Hlam s Hs Hmin.
  pose proof (set_mapping_Inv m mpx HI Hlab Hfst Hnd Hsnd) as HI'.
  exact (reduce_minimiser (set_mapping m mpx) out deg l pairs D HR Hb HI' Hlab Hlam s Hs Hmin).
Qed.
