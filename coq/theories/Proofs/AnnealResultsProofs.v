(* C13: `best` is None exactly when the collection is empty and otherwise an
   element with the smallest value -- for every register after every sequence
   of operations. *)
From QV.Model Require Import Base AnnealResults.
From Coq Require Import Lia Lqa Permutation.
Open Scope Q_scope.

Definition CInv (c : coll) : Prop :=
  match best c with
  | None => items c = []
  | Some b => In b (items c) /\ forall r, In r (items c) -> rval b <= rval r
  end.

Lemma qlt_spec a b : if qlt a b then a < b else b <= a.
Proof.
  unfold qlt. destruct (a ?= b) eqn:E.
  - apply Qeq_alt in E. rewrite E. apply Qle_refl.
  - apply Qlt_alt in E. exact E.
  - apply Qgt_alt in E. apply Qlt_le_weak, E.
Qed.

(* one more element *)
Lemma better_inv l b r :
  CInv {| items := l; best := b |} -> CInv {| items := l ++ [r]; best := better b r |}.
Proof.
  unfold CInv. simpl. destruct b as [b|]; simpl.
  - intros [Hin Hmin]. pose proof (qlt_spec (rval r) (rval b)) as Hq. destruct (qlt (rval r) (rval b)); simpl.
    + split; [apply in_or_app; right; left; reflexivity|]. intros x Hx. apply in_app_or in Hx.
      destruct Hx as [Hx|[<-|[]]]; [|apply Qle_refl]. specialize (Hmin x Hx). lra.
    + split; [apply in_or_app; left; exact Hin|]. intros x Hx. apply in_app_or in Hx.
      destruct Hx as [Hx|[<-|[]]]; [apply Hmin, Hx| exact Hq].
  - intros ->. simpl. split; [left; reflexivity|]. intros x [<-|[]]. apply Qle_refl.
Qed.

Lemma c_append_inv c r : CInv c -> CInv (c_append c r).
Proof. destruct c as [l b]. apply better_inv. Qed.

Lemma fold_append_inv l : forall c, CInv c -> CInv (fold_left c_append l c).
Proof. induction l as [|r l IH]; simpl; intros c H; [exact H| apply IH, c_append_inv, H]. Qed.

Lemma empty_inv : CInv empty_coll.
Proof. reflexivity. Qed.

Lemma c_of_list_inv l : CInv (c_of_list l).
Proof. apply fold_append_inv, empty_inv. Qed.

Lemma fold_append_items l : forall c, items (fold_left c_append l c) = items c ++ l.
Proof.
  induction l as [|r l IH]; simpl; intros c; [rewrite app_nil_r; reflexivity|].
  rewrite IH. simpl. rewrite <- app_assoc. reflexivity.
Qed.
Lemma c_of_list_items l : items (c_of_list l) = l.
Proof. unfold c_of_list. rewrite fold_append_items. reflexivity. Qed.

(* the order-insensitive part of the invariant only depends on the set of items *)
Lemma recompute_as_fold l : forall b, fold_left better l b = best (fold_left c_append l {| items := []; best := b |}).
Proof.
  assert (G : forall l c, best (fold_left c_append l c) = fold_left better l (best c)).
  { clear. induction l as [|r l IH]; simpl; intros c; [reflexivity| rewrite IH; reflexivity]. }
  intros b. rewrite G. reflexivity.
Qed.

Lemma recompute_inv l : CInv (with_items_recompute l).
Proof.
  unfold with_items_recompute, recompute. pose proof (c_of_list_inv l) as H. unfold CInv in *.
  rewrite c_of_list_items in H. simpl. unfold c_of_list in H.
  rewrite (recompute_as_fold l None). exact H.
Qed.

(* removing an element that is not (content-)equal to best *)
Lemma r_eqb_refl r : r_eqb r r = true.
Proof.
  unfold r_eqb. rewrite Qeq_bool_refl, eqb_reflx, andb_true_r. simpl.
  induction (rbits r) as [|b l IH]; simpl; [reflexivity| rewrite eqb_reflx, IH; reflexivity].
Qed.

Lemma remove_at_incl {A} n (l : list A) x : In x (remove_at n l) -> In x l.
Proof.
  revert n; induction l as [|y l IH]; intros [|n]; simpl; try tauto.
  intros [H|H]; [left; exact H| right; eapply IH, H].
Qed.
Lemma remove_at_keep n (l : list aresult) r b :
  nth_error l n = Some r -> r_eqb r b = false -> In b l -> In b (remove_at n l).
Proof.
  revert n; induction l as [|y l IH]; intros [|n]; simpl; try discriminate.
  - intros [= ->] Hne [->|Hin]; [rewrite r_eqb_refl in Hne; discriminate| exact Hin].
  - intros Hn Hne [->|Hin]; [left; reflexivity| right; eapply IH; eassumption].
Qed.

Lemma find_index_nth r l n : find_index r l = Some n -> exists x, nth_error l n = Some x /\ r_eqb x r = true.
Proof.
  revert n; induction l as [|y l IH]; simpl; intros n; [discriminate|].
  destruct (r_eqb y r) eqn:E.
  - intros [= <-]. exists y. auto.
  - destruct (find_index r l) as [m|]; simpl; [|discriminate]. intros [= <-]. apply (IH m eq_refl).
Qed.

Lemma r_eqb_sym a b : r_eqb a b = r_eqb b a.
Proof.
  unfold r_eqb. f_equal; [f_equal|].
  - destruct (Qeq_bool (rval a) (rval b)) eqn:E, (Qeq_bool (rval b) (rval a)) eqn:E'; try reflexivity.
    + apply Qeq_bool_iff in E. symmetry in E. apply Qeq_bool_iff in E. congruence.
    + apply Qeq_bool_iff in E'. symmetry in E'. apply Qeq_bool_iff in E'. congruence.
  - generalize (rbits b). induction (rbits a) as [|x l IH]; intros [|y m]; simpl; try reflexivity.
    rewrite IH. f_equal. destruct x, y; reflexivity.
  - destruct (rspin a), (rspin b); reflexivity.
Qed.
Lemma r_eqb_trans_false x r b : r_eqb x r = true -> r_eqb r b = false -> r_eqb x b = false.
Proof.
  unfold r_eqb. intros H1 H2. apply andb_true_iff in H1. destruct H1 as [H1 S1].
  apply andb_true_iff in H1. destruct H1 as [V1 B1].
  apply Qeq_bool_iff in V1. apply eqb_prop in S1.
  assert (B : rbits x = rbits r).
  { clear - B1. revert B1. generalize (rbits r). induction (rbits x) as [|a l IH]; intros [|c m]; simpl; try discriminate; [reflexivity|].
    intros H. apply andb_true_iff in H. destruct H as [H1 H2]. apply eqb_prop in H1. subst. f_equal. apply IH, H2. }
  rewrite B, S1.
  destruct (Qeq_bool (rval x) (rval b)) eqn:E; [|reflexivity].
  apply Qeq_bool_iff in E. assert (E' : rval r == rval b) by (rewrite <- V1; exact E).
  apply Qeq_bool_iff in E'. rewrite E' in H2. exact H2.
Qed.

Definition SInv (s : store) : Prop := forall r, CInv (rd s r).

Lemma rd_wr_same {s : store} d c : (d < length s)%nat -> rd (wr s d c) d = c.
Proof.
  unfold rd, wr. revert d; induction s as [|x s IH]; intros [|d]; simpl; try lia; [reflexivity|].
  intros H. apply IH. lia.
Qed.
Lemma rd_wr_cases (s : store) d c r : rd (wr s d c) r = c \/ rd (wr s d c) r = rd s r.
Proof.
  unfold rd, wr. revert d r; induction s as [|x s IH]; intros d r; simpl.
  - right. destruct d; reflexivity.
  - destruct d as [|d], r as [|r]; simpl; auto.
Qed.
Lemma wr_inv s d c : SInv s -> CInv c -> SInv (wr s d c).
Proof. intros Hs Hc r. destruct (rd_wr_cases s d c r) as [->| ->]; [exact Hc| apply Hs]. Qed.
Lemma wr_length (s : store) d c : length (wr s d c) = length s.
Proof. unfold wr. revert d; induction s as [|x s IH]; intros [|d]; simpl; auto. Qed.

Lemma sort_ins_perm rev r l : Permutation (r :: l) (sort_ins rev r l).
Proof.
  induction l as [|x l IH]; simpl; [apply Permutation_refl|].
  destruct (if rev then _ else _); [|apply Permutation_refl].
  eapply Permutation_trans; [apply perm_swap| apply perm_skip, IH].
Qed.
Lemma sort_stable_perm rev l : Permutation l (sort_stable rev l).
Proof.
  induction l as [|x l IH]; simpl; [apply Permutation_refl|].
  eapply Permutation_trans; [apply perm_skip, IH| apply sort_ins_perm].
Qed.

(* sort orders by value *)
Fixpoint sorted_by (rev : bool) (l : list aresult) : Prop :=
  match l with
  | [] => True
  | x :: l' => (forall y, In y l' -> if rev then rval y <= rval x else rval x <= rval y) /\ sorted_by rev l'
  end.
Lemma sort_ins_sorted rev r l : sorted_by rev l -> sorted_by rev (sort_ins rev r l).
Proof.
  induction l as [|x l IH]; simpl; [tauto|]. intros [Hx Hs].
  destruct rev.
  - pose proof (qlt_spec (rval r) (rval x)) as Hq. destruct (qlt (rval r) (rval x)); simpl.
    + split; [|apply IH, Hs]. intros y Hy. apply (Permutation_in _ (Permutation_sym (sort_ins_perm true r l))) in Hy.
      destruct Hy as [<-|Hy]; [lra| apply Hx, Hy].
    + split; [|split; assumption]. intros y [<-|Hy]; [exact Hq|]. specialize (Hx y Hy). simpl in Hx. lra.
  - pose proof (qlt_spec (rval x) (rval r)) as Hq. destruct (qlt (rval x) (rval r)); simpl.
    + split; [|apply IH, Hs]. intros y Hy. apply (Permutation_in _ (Permutation_sym (sort_ins_perm false r l))) in Hy.
      destruct Hy as [<-|Hy]; [lra| apply Hx, Hy].
    + split; [|split; assumption]. intros y [<-|Hy]; [exact Hq|]. specialize (Hx y Hy). simpl in Hx. lra.
Qed.
Lemma sort_stable_sorted rev l : sorted_by rev (sort_stable rev l).
Proof. induction l as [|x l IH]; simpl; [exact I| apply sort_ins_sorted, IH]. Qed.

Lemma CInv_perm l l' b : Permutation l l' -> CInv {| items := l; best := b |} -> CInv {| items := l'; best := b |}.
Proof.
  unfold CInv. simpl. intros P. destruct b as [b|].
  - intros [Hin Hmin]. split; [eapply Permutation_in; eassumption|].
    intros r Hr. apply Hmin. eapply Permutation_in; [apply Permutation_sym, P| exact Hr].
  - intros ->. apply Permutation_nil in P. exact P.
Qed.

Lemma c_extend_inv c o : CInv c -> CInv o -> CInv (c_extend c o).
Proof.
  unfold CInv, c_extend. destruct c as [lc bc], o as [lo bo]. simpl.
  destruct bo as [bo|], bc as [bc|]; simpl.
  - intros [Ic Mc] [Io Mo]. pose proof (qlt_spec (rval bo) (rval bc)) as Hq.
    destruct (qlt (rval bo) (rval bc)); simpl.
    + split; [apply in_or_app; right; exact Io|]. intros r Hr. apply in_app_or in Hr.
      destruct Hr as [Hr|Hr]; [specialize (Mc r Hr); lra| apply Mo, Hr].
    + split; [apply in_or_app; left; exact Ic|]. intros r Hr. apply in_app_or in Hr.
      destruct Hr as [Hr|Hr]; [apply Mc, Hr| specialize (Mo r Hr); lra].
  - intros -> [Io Mo]. simpl. split; assumption.
  - intros [Ic Mc] ->. rewrite app_nil_r. split; assumption.
  - intros -> ->. reflexivity.
Qed.

Lemma insert_at_perm {A} n (x : A) l : Permutation (x :: l) (insert_at n x l).
Proof.
  revert n; induction l as [|y l IH]; intros [|n]; simpl; try apply Permutation_refl.
  eapply Permutation_trans; [apply perm_swap| apply perm_skip, IH].
Qed.

(* every operation preserves the invariant of every register *)
Theorem step_inv s o s' : SInv s -> step s o = Ok s' -> SInv s'.
Proof.
  intros Hs H. destruct o; simpl in H;
    try (injection H as <-; apply wr_inv; [exact Hs|]; first [apply c_of_list_inv | apply empty_inv]).
  - injection H as <-. apply wr_inv; [exact Hs| apply c_append_inv, Hs].
  - injection H as <-. apply wr_inv; [exact Hs|].
    pose proof (Hs d) as Hc. destruct (rd s d) as [l b]. simpl.
    eapply CInv_perm; [|apply better_inv, Hc].
    eapply Permutation_trans; [apply Permutation_sym, Permutation_cons_append| apply insert_at_perm].
  - destruct (find_index r (items (rd s d))) as [n|] eqn:Hf; [|discriminate]. injection H as <-.
    apply wr_inv; [exact Hs|]. pose proof (Hs d) as Hc. unfold CInv in *.
    destruct (best (rd s d)) as [b|] eqn:Hb; simpl.
    + destruct (r_eqb r b) eqn:Hrb; [apply recompute_inv|]. simpl. destruct Hc as [Hin Hmin].
      destruct (find_index_nth _ _ _ Hf) as (x & Hx & Hxr). split.
      * eapply remove_at_keep; [exact Hx| eapply r_eqb_trans_false; eassumption| exact Hin].
      * intros y Hy. apply Hmin. eapply remove_at_incl, Hy.
    + rewrite Hc in Hf. discriminate.
  - destruct (norm_index i (length (items (rd s d)))) as [n|] eqn:Hn; [|discriminate]. injection H as <-.
    apply wr_inv; [exact Hs|]. pose proof (Hs d) as Hc. unfold CInv in *.
    destruct (nth_error (items (rd s d)) n) as [r|] eqn:Hr; [|apply recompute_inv].
    destruct (best (rd s d)) as [b|] eqn:Hb; [|apply recompute_inv].
    destruct (r_eqb r b) eqn:Hrb; [apply recompute_inv|]. simpl. destruct Hc as [Hin Hmin]. split.
    + eapply remove_at_keep; eassumption.
    + intros y Hy. apply Hmin. eapply remove_at_incl, Hy.
  - injection H as <-. apply wr_inv; [exact Hs| apply c_extend_inv; apply Hs].
  - injection H as <-. apply wr_inv; [exact Hs| apply fold_append_inv, Hs].
  - destruct (slice_indices s0 _) as [[[idx st] sp]|] eqn:Hsl; simpl in H; [|discriminate].
    injection H as <-. apply wr_inv; [exact Hs| apply c_of_list_inv].
  - destruct (norm_index i _); [injection H as <-; exact Hs| discriminate].
  - destruct (norm_index i _); [|discriminate]. injection H as <-. apply wr_inv; [exact Hs| apply recompute_inv].
  - destruct (slice_indices s0 _) as [[[idx st] sp]|] eqn:Hsl; simpl in H; [|discriminate].
    destruct (s_step s0) as [[|p|p]|].
    + destruct (Nat.eqb _ _); [|discriminate]. injection H as <-. apply wr_inv; [exact Hs| apply recompute_inv].
    + destruct p; try (destruct (Nat.eqb _ _); [|discriminate]); injection H as <-; apply wr_inv; try exact Hs; apply recompute_inv.
    + destruct (Nat.eqb _ _); [|discriminate]. injection H as <-. apply wr_inv; [exact Hs| apply recompute_inv].
    + injection H as <-. apply wr_inv; [exact Hs| apply recompute_inv].
  - destruct (norm_index i _); [|discriminate]. injection H as <-. apply wr_inv; [exact Hs| apply recompute_inv].
  - destruct (slice_indices s0 _) as [[[idx st] sp]|] eqn:Hsl; simpl in H; [|discriminate].
    injection H as <-. apply wr_inv; [exact Hs| apply recompute_inv].
  - injection H as <-. apply wr_inv; [exact Hs|]. pose proof (Hs d) as Hc. destruct (rd s d) as [l b]. simpl.
    eapply CInv_perm; [apply sort_stable_perm| exact Hc].
Qed.

Lemma init_inv : SInv init_store.
Proof. intros [|[|[|[|r]]]]; unfold CInv; simpl; reflexivity. Qed.

Theorem run_inv ops : SInv (run ops).
Proof.
  unfold run. generalize init_inv. generalize init_store.
  induction ops as [|o ops IH]; simpl; intros s Hs; [exact Hs|].
  apply IH. unfold step_total. destruct (step s o) eqn:E; [eapply step_inv; eassumption| exact Hs].
Qed.

(* to_boolean / to_spin preserve values and are mutually inverse on states *)
Lemma to_bool_to_spin r : rspin r = false -> r_to_bool (r_to_spin r) = r.
Proof. destruct r as [v b s]. simpl. intros ->. reflexivity. Qed.
Lemma to_spin_to_bool r : rspin r = true -> r_to_spin (r_to_bool r) = r.
Proof. destruct r as [v b s]. simpl. intros ->. reflexivity. Qed.
Lemma to_spin_val r : rval (r_to_spin r) = rval r /\ rval (r_to_bool r) = rval r.
Proof. split; reflexivity. Qed.
