(* C08 for any number of constraints on one PCBO: the exchange argument over a list of penalties, and its
   instantiation for sequences of comparison constraints (uses the ancilla bound of Proofs/AncProofs.v) *)
From QV.Model Require Import Base Matrix Arith Expr Extrema Sat PCBO.
From QV.Proofs Require Import BaseProofs KeyProofs ArithProofs LabelProofs PenaltyArith PCBOProofs AncProofs WorkflowProofs.
From QV.Proofs Require ConvertProofs.
From Coq Require Import Lia Lqa.
Open Scope Q_scope.

Record pen := { plam : Q; pG : env -> Q; pR : env -> Prop; pfr : label -> Prop }.
Fixpoint sumL (ps : list pen) (x : env) : Q := match ps with [] => 0 | p :: ps' => plam p * pG p x + sumL ps' x end.
Definition anyL (ps : list pen) (l : label) : Prop := exists p, In p ps /\ pfr p l.
(* dom: the assignments considered -- boolean_env for PCBO, spin_env for PCSO *)
Definition pen_good (dom : env -> Prop) (p : pen) : Prop :=
  (forall x, dom x -> 0 <= pG p x) /\
  (forall x, dom x -> pR p x -> exists x', dom x' /\ agree_off (pfr p) x x' /\ pG p x' == 0) /\
  (forall x, dom x -> ~ pR p x -> 1 <= pG p x) /\
  (forall x, pR p x \/ ~ pR p x).
(* a penalty does not read the ancillas of the penalties after it *)
Fixpoint later_ok (dom : env -> Prop) (ps : list pen) : Prop :=
  match ps with
  | [] => True
  | p :: ps' => (forall x x', dom x -> dom x' -> agree_off (anyL ps') x x' -> pG p x' == pG p x) /\ later_ok dom ps'
  end.

Section WorkflowL.
  Variable dom : env -> Prop.
  Variable f : env -> Q.
  Variable W : Q.
  Hypothesis W_spread : forall x x', dom x -> dom x' -> f x - f x' <= W.

  Lemma agree_trans (S : label -> Prop) a b c : agree_off S a b -> agree_off S b c -> agree_off S a c.
  Proof. intros H1 H2 l Hl. rewrite (H2 l Hl). apply H1, Hl. Qed.
  Lemma agree_weaken (S S' : label -> Prop) a b : (forall l, S l -> S' l) -> agree_off S a b -> agree_off S' a b.
  Proof. intros Hs H l Hl. apply H. intros Hc. apply Hl, Hs, Hc. Qed.

  Lemma zero_allL : forall ps, Forall (pen_good dom) ps -> later_ok dom ps ->
    (forall p x x', In p ps -> dom x -> dom x' -> agree_off (anyL ps) x x' -> (pR p x <-> pR p x')) ->
    forall x, dom x -> (forall p, In p ps -> pR p x) ->
    exists x', dom x' /\ agree_off (anyL ps) x x' /\ forall p, In p ps -> pG p x' == 0.
  Proof.
    induction ps as [|p ps IH]; intros Hg Hl HR x Hx Hf.
    - exists x. split; [exact Hx|]. split; [apply agree_off_refl| intros p []].
    - inversion Hg as [|? ? Gp Gps]; subst. destruct Hl as [Lp Lps]. destruct Gp as (_ & Sat & _ & _).
      destruct (Sat x Hx (Hf p (or_introl eq_refl))) as (x1 & Hx1 & A1 & Z1).
      assert (A1' : agree_off (anyL (p :: ps)) x x1) by (eapply agree_weaken; [|exact A1]; intros l Hl; exists p; split; [left; reflexivity| exact Hl]).
      destruct (IH Gps Lps) with (x := x1) as (x2 & Hx2 & A2 & Z2).
      + intros q y y' Hq Hy Hy' Ha. apply (HR q y y' (or_intror Hq) Hy Hy').
        eapply agree_weaken; [|exact Ha]. intros l (q' & Hq' & Hl). exists q'. split; [right; exact Hq'| exact Hl].
      + exact Hx1.
      + intros q Hq. apply (HR q x x1 (or_intror Hq) Hx Hx1 A1'), Hf. right. exact Hq.
      + exists x2. split; [exact Hx2|]. split.
        * eapply agree_trans; [exact A1'|]. eapply agree_weaken; [|exact A2].
          intros l (q & Hq & Hl). exists q. split; [right; exact Hq| exact Hl].
        * intros q [<-|Hq]; [|apply Z2, Hq]. rewrite (Lp x1 x2 Hx1 Hx2 A2). exact Z1.
  Qed.

  Lemma sumL_nonneg ps x : Forall (pen_good dom) ps -> (forall p, In p ps -> 0 <= plam p) -> dom x -> 0 <= sumL ps x.
  Proof.
    intros Hg Hl Hx. induction Hg as [|p ps Gp Gps IH]; simpl; [lra|].
    destruct Gp as (N & _). specialize (IH (fun q Hq => Hl q (or_intror Hq))).
    pose proof (Qmult_le_0_compat _ _ (Hl p (or_introl eq_refl)) (N x Hx)). lra.
  Qed.
  Lemma sumL_zero ps x : (forall p, In p ps -> pG p x == 0) -> sumL ps x == 0.
  Proof. induction ps as [|p ps IH]; simpl; intros H; [reflexivity|]. rewrite (H p (or_introl eq_refl)), IH; [ring| intros q Hq; apply H; right; exact Hq]. Qed.
  Lemma sumL_ge ps x p : Forall (pen_good dom) ps -> (forall q, In q ps -> 0 <= plam q) -> dom x -> In p ps -> plam p * pG p x <= sumL ps x.
  Proof.
    intros Hg Hl Hx Hin. induction Hg as [|q ps Gq Gps IH]; [destruct Hin|]. simpl.
    pose proof (sumL_nonneg ps x Gps (fun r Hr => Hl r (or_intror Hr)) Hx) as S0.
    destruct Hin as [<-|Hin]; [lra|]. specialize (IH (fun r Hr => Hl r (or_intror Hr)) Hin).
    destruct Gq as (N & _). pose proof (Qmult_le_0_compat _ _ (Hl q (or_introl eq_refl)) (N x Hx)). lra.
  Qed.

  Theorem minimiser_feasible_optimalL ps x0 xs :
    Forall (pen_good dom) ps -> later_ok dom ps ->
    (forall x x', dom x -> dom x' -> agree_off (anyL ps) x x' -> f x' == f x) ->
    (forall p x x', In p ps -> dom x -> dom x' -> agree_off (anyL ps) x x' -> (pR p x <-> pR p x')) ->
    (forall p, In p ps -> W < plam p) ->
    dom x0 -> (forall p, In p ps -> pR p x0) ->
    dom xs -> (forall x, dom x -> f xs + sumL ps xs <= f x + sumL ps x) ->
    (forall p, In p ps -> pR p xs) /\
    (forall x, dom x -> (forall p, In p ps -> pR p x) -> f xs <= f x) /\
    f xs + sumL ps xs == f xs.
  Proof.
    intros Hg Hl Hf HR Hlam Hx0 HR0 Hxs Hmin.
    assert (W0 : 0 <= W) by (specialize (W_spread x0 x0 Hx0 Hx0); lra).
    assert (Lpos : forall p, In p ps -> 0 <= plam p) by (intros p Hp; specialize (Hlam p Hp); lra).
    assert (Up : forall x, dom x -> (forall p, In p ps -> pR p x) -> f xs + sumL ps xs <= f x).
    { intros x Hx Hfx. destruct (zero_allL ps Hg Hl HR x Hx Hfx) as (x' & Hx' & A & Z).
      rewrite <- (Hf x x' Hx Hx' A). eapply Qle_trans; [apply (Hmin x' Hx')|]. rewrite (sumL_zero ps x' Z). lra. }
    assert (Feas : forall p, In p ps -> pR p xs).
    { intros p Hp. pose proof (proj1 (Forall_forall _ _) Hg p Hp) as (N & _ & Un & Dec).
      destruct (Dec xs) as [Hr|Hn]; [exact Hr|]. exfalso.
      pose proof (Un xs Hxs Hn) as G1. pose proof (Hlam p Hp) as Lb.
      pose proof (sumL_ge ps xs p Hg Lpos Hxs Hp) as S1.
      assert (S2 : plam p <= plam p * pG p xs) by (rewrite <- (Qmult_1_r (plam p)) at 1; apply Qmult_le_l; lra).
      pose proof (Up x0 Hx0 HR0) as U. pose proof (W_spread x0 xs Hx0 Hxs). lra. }
    pose proof (sumL_nonneg ps xs Hg Lpos Hxs) as S0.
    split; [exact Feas|]. split.
    - intros x Hx Hfx. specialize (Up x Hx Hfx). lra.
    - specialize (Up xs Hxs Feas). lra.
  Qed.
End WorkflowL.

(* ---- sequences of comparison constraints on one PCBO, none of them warned unsatisfiable ---- *)
Fixpoint run_ok (m : model) (cs : list ccall) : result model :=
  match cs with
  | [] => Ok m
  | c :: cs' => bind (add_constraint (cc_rel c) m (cc_P c) (cc_lam c) (cc_log c) (cc_bounds c))
                     (fun '(m', w, _) => match w with WUnsat => Err ValueError | _ => run_ok m' cs' end)
  end.
Definition cR (c : ccall) (x : env) : Prop := rel_prop (cc_rel c) (eval x (cc_P c)).

Lemma later_mono a a' l : (a <= a')%nat -> later a' l -> later a l.
Proof. intros H (j & Hj & E). exists j. split; [lia| exact E]. Qed.
Lemma fresh_later a a' l : fresh_lbl a a' l -> later a l.
Proof. intros (j & Hj & E). exists j. split; [lia| exact E]. Qed.

Lemma run_ok_pens : forall cs m m', run_ok m cs = Ok m' -> bkind (kd m) -> LP (AB (anc m)) (tm m) -> Forall call_ok cs ->
  exists ps,
    Forall2 (fun c p => plam p = cc_lam c /\ pR p = cR c) cs ps /\
    (forall x, boolean_env x -> eval x (tm m') == eval x (tm m) + sumL ps x) /\
    Forall (pen_good boolean_env) ps /\ later_ok boolean_env ps /\
    (forall p l, In p ps -> pfr p l -> later (anc m) l) /\
    LP (AB (anc m')) (tm m') /\ kd m' = kd m.
Proof.
  induction cs as [|c cs IH]; intros m m' H Hk Hm Hok; cbn [run_ok] in H.
  - injection H as <-. exists []. split; [constructor|]. split; [intros x _; simpl; ring|]. split; [constructor|].
    split; [exact I|]. split; [intros p l []|]. split; [exact Hm| reflexivity].
  - destruct (add_constraint (cc_rel c) m (cc_P c) (cc_lam c) (cc_log c) (cc_bounds c)) as [[[m1 w] t]|] eqn:E; cbn [bind] in H; [|discriminate].
    assert (Hw : w <> WUnsat) by (intros ->; discriminate).
    assert (H1 : run_ok m1 cs = Ok m') by (destruct w; [exact H| contradiction| exact H]). clear H.
    inversion Hok as [|? ? (Hl & Hi & Hb & Hn) Hok']; subst.
    assert (Hlam : ~ cc_lam c == 0) by (intros Hz; rewrite Hz in Hl; apply (Qlt_irrefl 0), Hl).
    destruct (add_constraint_spec _ _ _ _ _ _ _ _ _ E Hk Hlam Hi Hb (fun n => no_anc_indep _ _ _ Hn))
      as (G & P & _ & Sok & (K1 & _) & A1 & NN & PR).
    destruct (PR Hw) as (PN & PS & PU).
    destruct (add_constraint_AB _ _ _ _ _ _ _ _ _ E Hm (no_anc_LP _ Hn _)) as [L1 _].
    assert (Hk1 : bkind (kd m1)) by (rewrite K1; exact Hk).
    destruct (IH m1 m' H1 Hk1 L1 Hok') as (ps & F2 & V & Gd & Lo & Fr & Lm' & Km').
    set (p0 := {| plam := cc_lam c; pG := G; pR := cR c; pfr := fresh_lbl (anc m) (anc m1) |}).
    exists (p0 :: ps). split; [constructor; [split; reflexivity| exact F2]|]. split.
    { intros x Hx. rewrite (V x Hx), (Sok x Hx). simpl. ring. }
    split.
    { constructor; [|exact Gd]. split; [exact PN|]. split; [|split].
      - intros x Hx HR. destruct (PS x Hx HR) as (x' & B1 & B2 & B3). exists x'. auto.
      - exact PU.
      - intros x. apply rel_prop_dec. }
    split.
    { split; [|exact Lo]. intros x x' Hx Hx' Ha.
      apply (step_later m m1 (cc_lam c) G Sok Hlam (AB_mono _ _ _ A1 Hm) L1 x x' Hx Hx').
      intros l Hnl. apply Ha. intros (q & Hq & Hfl). apply Hnl. apply (Fr q l Hq Hfl). }
    split.
    { intros q l [<-|Hq] Hfl; [apply (fresh_later _ _ _ Hfl)| apply (later_mono _ _ _ A1), (Fr q l Hq Hfl)]. }
    split; [exact Lm'| congruence].
Qed.

Theorem workflow_seq cs m m' W x0 xs :
  run_ok m cs = Ok m' -> bkind (kd m) -> no_anc (tm m) -> Forall call_ok cs ->
  let f := fun x => eval x (tm m) in
  (forall x x', boolean_env x -> boolean_env x' -> f x - f x' <= W) ->
  (forall c, In c cs -> W < cc_lam c) ->
  boolean_env x0 -> (forall c, In c cs -> cR c x0) ->
  boolean_env xs -> (forall x, boolean_env x -> eval xs (tm m') <= eval x (tm m')) ->
  (forall c, In c cs -> cR c xs) /\
  (forall x, boolean_env x -> (forall c, In c cs -> cR c x) -> f xs <= f x) /\
  eval xs (tm m') == f xs.
Proof.
  intros H Hk Hna Hok f HW Hlam Hx0 HR0 Hxs Hmin.
  destruct (run_ok_pens cs m m' H Hk (no_anc_LP _ Hna _) Hok) as (ps & F2 & V & Gd & Lo & Fr & _ & _).
  (* constraints of the list and penalties correspond one to one *)
  assert (In_c : forall c, In c cs -> exists p, In p ps /\ plam p = cc_lam c /\ pR p = cR c).
  { clear -F2. induction F2 as [|c p cs ps [A B] F IH]; intros c0 Hin; [destruct Hin|].
    destruct Hin as [<-|Hin]; [exists p; split; [left; reflexivity| auto]|]. destruct (IH c0 Hin) as (q & Hq & Hr). exists q. split; [right; exact Hq| exact Hr]. }
  assert (In_p : forall p, In p ps -> exists c, In c cs /\ plam p = cc_lam c /\ pR p = cR c).
  { clear -F2. induction F2 as [|c p cs ps [A B] F IH]; intros p0 Hin; [destruct Hin|].
    destruct Hin as [<-|Hin]; [exists c; split; [left; reflexivity| auto]|]. destruct (IH p0 Hin) as (q & Hq & Hr). exists q. split; [right; exact Hq| exact Hr]. }
  assert (Hanc : forall l, anyL ps l -> exists j, l = anc_label j).
  { intros l (p & Hp & Hfl). destruct (Fr p l Hp Hfl) as (j & _ & E). exists j. exact E. }
  assert (Hind : forall t, no_anc t -> forall x x', agree_off (anyL ps) x x' -> eval x' t == eval x t).
  { intros t Hn x x' Ha. apply ConvertProofs.eval_ext_in. intros k v i Hin Hi. apply (Ha i).
    intros Hc. destruct (Hanc i Hc) as (j & E). apply (Hn k v i j Hin Hi E). }
  destruct (minimiser_feasible_optimalL boolean_env f W HW ps x0 xs Gd Lo) as (F1 & F3 & F4).
  - intros x x' _ _ Ha. apply (Hind _ Hna x x' Ha).
  - intros p x x' Hp _ _ Ha. destruct (In_p p Hp) as (c & Hc & _ & ER). rewrite ER. unfold cR.
    assert (Hn : no_anc (cc_P c)) by (pose proof (proj1 (Forall_forall _ _) Hok c Hc) as (_ & _ & _ & Hn); exact Hn).
    pose proof (Hind _ Hn x x' Ha) as E. destruct (cc_rel c); simpl; rewrite E; tauto.
  - intros p Hp. destruct (In_p p Hp) as (c & Hc & EL & _). rewrite EL. apply Hlam, Hc.
  - exact Hx0.
  - intros p Hp. destruct (In_p p Hp) as (c & Hc & _ & ER). rewrite ER. apply HR0, Hc.
  - exact Hxs.
  - intros x Hx. unfold f. rewrite <- (V xs Hxs), <- (V x Hx). apply Hmin, Hx.
  - split; [|split].
    + intros c Hc. destruct (In_c c Hc) as (p & Hp & _ & ER). rewrite <- ER. apply F1, Hp.
    + intros x Hx Hfx. apply F3; [exact Hx|]. intros p Hp. destruct (In_p p Hp) as (c & Hc & _ & ER). rewrite ER. apply Hfx, Hc.
    + rewrite (V xs Hxs). unfold f in F4. exact F4.
Qed.

(* ... and through degree reduction: a minimiser of any reduced form of the constrained model, converted back *)
From QV.Model Require Import Convert Reduce.
From QV.Proofs Require Import InvProofs ReduceProofs.
Theorem workflow_seq_reduced cs m m' W x0 out deg l pairs D s :
  run_ok m cs = Ok m' -> bkind (kd m) -> no_anc (tm m) -> Forall call_ok cs ->
  let f := fun x => eval x (tm m) in
  (forall x x', boolean_env x -> boolean_env x' -> f x - f x' <= W) ->
  (forall c, In c cs -> W < cc_lam c) ->
  boolean_env x0 -> (forall c, In c cs -> cR c x0) ->
  reduce_degree m' out deg l pairs = Ok D -> bmat out -> Inv m' -> is_labelled (kd m') = true ->
  (forall ms, mapped_self (mp m') (tm m') = Ok ms -> forall k v, In (k, v) ms -> Qabs v <= lam_fun l v) ->
  boolean_env s -> (forall s', boolean_env s' -> eval s (tm D) <= eval s' (tm D)) ->
  let xs := ConvertProofs.pull (mp m') s in
  (forall c, In c cs -> cR c xs) /\
  (forall x, boolean_env x -> (forall c, In c cs -> cR c x) -> f xs <= f x) /\
  eval s (tm D) == f xs.
Proof.
  intros H Hk Hna Hok f HW Hlam Hx0 HR0 HD Hbm HI Hl Hpen Hs Hmin xs.
  destruct (reduce_minimiser _ _ _ _ _ _ HD Hbm HI Hl Hpen s Hs Hmin) as [E Mx]. fold xs in E, Mx.
  destruct (workflow_seq cs m m' W x0 xs H Hk Hna Hok HW Hlam Hx0 HR0 (pull_bool _ _ Hs) Mx) as (A & B0 & C0).
  split; [exact A|]. split; [exact B0|]. rewrite <- E. exact C0.
Qed.


From QV.Proofs Require Import InvConstraint.
(* the bookkeeping invariant of the objective model is enough: the constraint methods preserve it *)
Lemma run_ok_Inv cs : forall m m', run_ok m cs = Ok m' -> Inv m -> Inv m'.
Proof.
  induction cs as [|c cs IH]; intros m m' H HI; cbn [run_ok] in H; [injection H as <-; exact HI|].
  destruct (add_constraint (cc_rel c) m (cc_P c) (cc_lam c) (cc_log c) (cc_bounds c)) as [[[m1 w] t]|] eqn:E; cbn [bind] in H; [|discriminate].
  assert (H1 : run_ok m1 cs = Ok m') by (destruct w; [exact H| discriminate| exact H]).
  apply (IH m1 m' H1). eapply add_constraint_Inv; eassumption.
Qed.

Theorem workflow_seq_reduced_inv cs m m' W x0 out deg l pairs D s :
  run_ok m cs = Ok m' -> bkind (kd m) -> no_anc (tm m) -> Forall call_ok cs ->
  let f := fun x => eval x (tm m) in
  (forall x x', boolean_env x -> boolean_env x' -> f x - f x' <= W) ->
  (forall c, In c cs -> W < cc_lam c) ->
  boolean_env x0 -> (forall c, In c cs -> cR c x0) ->
  reduce_degree m' out deg l pairs = Ok D -> bmat out -> Inv m -> is_labelled (kd m) = true ->
  (forall ms, mapped_self (mp m') (tm m') = Ok ms -> forall k v, In (k, v) ms -> Qabs v <= lam_fun l v) ->
  boolean_env s -> (forall s', boolean_env s' -> eval s (tm D) <= eval s' (tm D)) ->
  let xs := ConvertProofs.pull (mp m') s in
  (forall c, In c cs -> cR c xs) /\
  (forall x, boolean_env x -> (forall c, In c cs -> cR c x) -> f xs <= f x) /\
  eval s (tm D) == f xs.
Proof.
  intros H Hk Hna Hok f HW Hlam Hx0 HR0 HD Hbm HI Hl Hpen Hs Hmin xs.
  destruct (run_ok_pens cs m m' H Hk (no_anc_LP _ Hna _) Hok) as (_ & _ & _ & _ & _ & _ & _ & Kd).
  apply (workflow_seq_reduced cs m m' W x0 out deg l pairs D s H Hk Hna Hok HW Hlam Hx0 HR0 HD Hbm
           (run_ok_Inv cs m m' H HI) ltac:(rewrite Kd; exact Hl) Hpen Hs Hmin).
Qed.

(* ================= the same for PCSO: spin assignments ================= *)
From QV.Model Require Import PCSO.
From QV.Proofs Require Import PCSOProofs.

Lemma LP_AB_ext a t x x' : LP (AB a) t -> agree_off (later a) x x' -> eval x' t == eval x t.
Proof.
  intros H Ha. apply ConvertProofs.eval_ext_in. intros k v i Hin Hi. apply (Ha i).
  intros (j & Hj & E). specialize (H k v i Hin Hi j E). lia.
Qed.
Lemma step_later_S m m' lam G : step_ok_S m m' lam G -> ~ lam == 0 ->
  LP (AB (anc m')) (tm m) -> LP (AB (anc m')) (tm m') ->
  forall z z', spin_env z -> spin_env z' -> agree_off (later (anc m')) z z' -> G z' == G z.
Proof.
  intros S Hl Lm Lm' z z' Hz Hz' Ha.
  pose proof (S z Hz) as E1. pose proof (S z' Hz') as E2.
  pose proof (LP_AB_ext _ _ z z' Lm Ha) as I1. pose proof (LP_AB_ext _ _ z z' Lm' Ha) as I2.
  assert (lam * G z' == lam * G z) by lra. apply (Qmult_inj_l _ _ lam Hl). exact H.
Qed.

Fixpoint run_ok_S (m : model) (cs : list ccall) : result model :=
  match cs with
  | [] => Ok m
  | c :: cs' => bind (pcso_add (cc_rel c) m (cc_P c) (cc_lam c) (cc_log c) (cc_bounds c))
                     (fun '(m', w, _) => match w with WUnsat => Err ValueError | _ => run_ok_S m' cs' end)
  end.

Lemma run_ok_S_pens : forall cs m m', run_ok_S m cs = Ok m' -> kd m = KPcso -> LP (AB (anc m)) (tm m) -> Forall call_ok_S cs ->
  exists ps,
    Forall2 (fun c p => plam p = cc_lam c /\ pR p = cR c) cs ps /\
    (forall z, spin_env z -> eval z (tm m') == eval z (tm m) + sumL ps z) /\
    Forall (pen_good spin_env) ps /\ later_ok spin_env ps /\
    (forall p l, In p ps -> pfr p l -> later (anc m) l) /\
    LP (AB (anc m')) (tm m').
Proof.
  induction cs as [|c cs IH]; intros m m' H Hk Hm Hok; cbn [run_ok_S] in H.
  - injection H as <-. exists []. split; [constructor|]. split; [intros z _; simpl; ring|]. split; [constructor|].
    split; [exact I|]. split; [intros p l []| exact Hm].
  - destruct (pcso_add (cc_rel c) m (cc_P c) (cc_lam c) (cc_log c) (cc_bounds c)) as [[[m1 w] t]|] eqn:E; cbn [bind] in H; [|discriminate].
    assert (Hw : w <> WUnsat) by (intros ->; discriminate).
    assert (H1 : run_ok_S m1 cs = Ok m') by (destruct w; [exact H| contradiction| exact H]). clear H.
    inversion Hok as [|? ? (Hl & Hi & Hb & Hn) Hok']; subst.
    assert (Hlam : ~ cc_lam c == 0) by (intros Hz; rewrite Hz in Hl; apply (Qlt_irrefl 0), Hl).
    destruct (pcso_add_spec _ _ _ _ _ _ _ _ _ E Hk Hlam Hi Hb Hn) as (G & Hs & _ & Sok & K1 & _ & A1 & NN & PR).
    destruct (PR Hw) as (PN & PS & PU).
    destruct (pcso_add_AB _ _ _ _ _ _ _ _ _ E Hm (no_anc_LP _ Hn _)) as [L1 _].
    destruct (IH m1 m' H1 K1 L1 Hok') as (ps & F2 & V & Gd & Lo & Fr & Lm').
    set (p0 := {| plam := cc_lam c; pG := G; pR := cR c; pfr := fresh_lbl (anc m) (anc m1) |}).
    exists (p0 :: ps). split; [constructor; [split; reflexivity| exact F2]|]. split.
    { intros z Hz. rewrite (V z Hz), (Sok z Hz). simpl. ring. }
    split.
    { constructor; [|exact Gd]. split; [exact PN|]. split; [|split].
      - intros z Hz HR. destruct (PS z Hz HR) as (z' & B1 & B2 & B3). exists z'. auto.
      - exact PU.
      - intros z. apply rel_prop_dec. }
    split.
    { split; [|exact Lo]. intros z z' Hz Hz' Ha.
      apply (step_later_S m m1 (cc_lam c) G Sok Hlam (AB_mono _ _ _ A1 Hm) L1 z z' Hz Hz').
      intros l Hnl. apply Ha. intros (q & Hq & Hfl). apply Hnl. apply (Fr q l Hq Hfl). }
    split; [|exact Lm'].
    intros q l [<-|Hq] Hfl; [apply (fresh_later _ _ _ Hfl)| apply (later_mono _ _ _ A1), (Fr q l Hq Hfl)].
Qed.

Theorem workflow_seq_S cs m m' W z0 zs :
  run_ok_S m cs = Ok m' -> kd m = KPcso -> no_anc (tm m) -> Forall call_ok_S cs ->
  let f := fun z => eval z (tm m) in
  (forall z z', spin_env z -> spin_env z' -> f z - f z' <= W) ->
  (forall c, In c cs -> W < cc_lam c) ->
  spin_env z0 -> (forall c, In c cs -> cR c z0) ->
  spin_env zs -> (forall z, spin_env z -> eval zs (tm m') <= eval z (tm m')) ->
  (forall c, In c cs -> cR c zs) /\
  (forall z, spin_env z -> (forall c, In c cs -> cR c z) -> f zs <= f z) /\
  eval zs (tm m') == f zs.
Proof.
  intros H Hk Hna Hok f HW Hlam Hz0 HR0 Hzs Hmin.
  destruct (run_ok_S_pens cs m m' H Hk (no_anc_LP _ Hna _) Hok) as (ps & F2 & V & Gd & Lo & Fr & _).
  assert (In_c : forall c, In c cs -> exists p, In p ps /\ plam p = cc_lam c /\ pR p = cR c).
  { clear -F2. induction F2 as [|c p cs ps [A B] F IH]; intros c0 Hin; [destruct Hin|].
    destruct Hin as [<-|Hin]; [exists p; split; [left; reflexivity| auto]|]. destruct (IH c0 Hin) as (q & Hq & Hr). exists q. split; [right; exact Hq| exact Hr]. }
  assert (In_p : forall p, In p ps -> exists c, In c cs /\ plam p = cc_lam c /\ pR p = cR c).
  { clear -F2. induction F2 as [|c p cs ps [A B] F IH]; intros p0 Hin; [destruct Hin|].
    destruct Hin as [<-|Hin]; [exists c; split; [left; reflexivity| auto]|]. destruct (IH p0 Hin) as (q & Hq & Hr). exists q. split; [right; exact Hq| exact Hr]. }
  assert (Hanc : forall l, anyL ps l -> exists j, l = anc_label j).
  { intros l (p & Hp & Hfl). destruct (Fr p l Hp Hfl) as (j & _ & E). exists j. exact E. }
  assert (Hind : forall t, no_anc t -> forall z z', agree_off (anyL ps) z z' -> eval z' t == eval z t).
  { intros t Hn z z' Ha. apply ConvertProofs.eval_ext_in. intros k v i Hin Hi. apply (Ha i).
    intros Hc. destruct (Hanc i Hc) as (j & E). apply (Hn k v i j Hin Hi E). }
  destruct (minimiser_feasible_optimalL spin_env f W HW ps z0 zs Gd Lo) as (F1 & F3 & F4).
  - intros z z' _ _ Ha. apply (Hind _ Hna z z' Ha).
  - intros p z z' Hp _ _ Ha. destruct (In_p p Hp) as (c & Hc & _ & ER). rewrite ER. unfold cR.
    assert (Hn : no_anc (cc_P c)) by (pose proof (proj1 (Forall_forall _ _) Hok c Hc) as (_ & _ & _ & Hn); exact Hn).
    pose proof (Hind _ Hn z z' Ha) as E. destruct (cc_rel c); simpl; rewrite E; tauto.
  - intros p Hp. destruct (In_p p Hp) as (c & Hc & EL & _). rewrite EL. apply Hlam, Hc.
  - exact Hz0.
  - intros p Hp. destruct (In_p p Hp) as (c & Hc & _ & ER). rewrite ER. apply HR0, Hc.
  - exact Hzs.
  - intros z Hz. unfold f. rewrite <- (V zs Hzs), <- (V z Hz). apply Hmin, Hz.
  - split; [|split].
    + intros c Hc. destruct (In_c c Hc) as (p & Hp & _ & ER). rewrite <- ER. apply F1, Hp.
    + intros z Hz Hfz. apply F3; [exact Hz|]. intros p Hp. destruct (In_p p Hp) as (c & Hc & _ & ER). rewrite ER. apply Hfz, Hc.
    + rewrite (V zs Hzs). unfold f in F4. exact F4.
Qed.
