(* C13, refinement half: forgetting `best`, every operation of the AnnealResults machine is the
   operation of a plain Python list -- same resulting lists in every register, same exception or none.
   So no operation raises on operands a plain list accepts, derived collections hold exactly the
   elements the list operation yields, and `best` (AnnealResultsProofs.step_inv) is the only extra state. *)
From QV.Model Require Import Base AnnealResults.
From QV.Proofs Require Import AnnealResultsProofs.
From Coq Require Import Lia.
Open Scope Q_scope.

(* the specification: registers holding plain lists *)
Definition lstore := list (list aresult).
Definition lrd (s : lstore) (r : reg) : list aresult := nth r s [].
Definition lwr (s : lstore) (r : reg) (l : list aresult) : lstore := set_at r l s.

Definition lstep (s : lstore) (o : aop) : result lstore :=
  match o with
  | Construct d l => Ok (lwr s d l)
  | Append d r => Ok (lwr s d (lrd s d ++ [r]))
  | Insert d i r => Ok (lwr s d (insert_at (clamp_insert i (length (lrd s d))) r (lrd s d)))
  | Remove d r =>
      match find_index r (lrd s d) with
      | None => Err ValueError
      | Some n => Ok (lwr s d (remove_at n (lrd s d)))
      end
  | Pop d i =>
      match norm_index i (length (lrd s d)) with
      | None => Err IndexError
      | Some n => Ok (lwr s d (remove_at n (lrd s d)))
      end
  | Extend d s0 => Ok (lwr s d (lrd s d ++ lrd s s0))
  | ExtendList d l => Ok (lwr s d (lrd s d ++ l))
  | Add k a b => Ok (lwr s k (lrd s a ++ lrd s b))
  | AddList k a l => Ok (lwr s k (lrd s a ++ l))
  | Mul k a n => Ok (lwr s k (concat (repeat (lrd s a) (Z.to_nat n))))
  | GetSlice k a sl =>
      bind (slice_indices sl (length (lrd s a))) (fun '(idx, _, _) => Ok (lwr s k (nth_all (lrd s a) idx)))
  | GetItem a i => match norm_index i (length (lrd s a)) with None => Err IndexError | Some _ => Ok s end
  | SetItem d i r =>
      match norm_index i (length (lrd s d)) with
      | None => Err IndexError
      | Some n => Ok (lwr s d (set_at n r (lrd s d)))
      end
  | SetSlice d sl l =>
      bind (slice_indices sl (length (lrd s d))) (fun '(idx, start, stop) =>
        match s_step sl with
        | None | Some 1%Z =>
            let a := Z.to_nat start in
            let b := Nat.max a (Z.to_nat stop) in
            Ok (lwr s d (firstn a (lrd s d) ++ l ++ skipn b (lrd s d)))
        | Some _ =>
            if Nat.eqb (length idx) (length l) then Ok (lwr s d (set_all (lrd s d) idx l)) else Err ValueError
        end)
  | DelItem d i =>
      match norm_index i (length (lrd s d)) with
      | None => Err IndexError
      | Some n => Ok (lwr s d (remove_at n (lrd s d)))
      end
  | DelSlice d sl =>
      bind (slice_indices sl (length (lrd s d))) (fun '(idx, _, _) => Ok (lwr s d (remove_all (lrd s d) idx)))
  | Clear d => Ok (lwr s d [])
  | Sort d rev => Ok (lwr s d (sort_stable rev (lrd s d)))
  | Copy k a => Ok (lwr s k (lrd s a))
  | Filter k a p => Ok (lwr s k (filter (rpred_eval p) (lrd s a)))
  | FilterStates k a p => Ok (lwr s k (filter (spred_eval p) (lrd s a)))
  | Apply k a f => Ok (lwr s k (map (rfun_eval f) (lrd s a)))
  | Convert k a g => Ok (lwr s k (map (sfun_eval g) (lrd s a)))
  | ToBool k a => Ok (lwr s k (map r_to_bool (lrd s a)))
  | ToSpin k a => Ok (lwr s k (map r_to_spin (lrd s a)))
  end.

Definition labs (s : store) : lstore := map items s.

Lemma abs_rd s r : items (rd s r) = lrd (labs s) r.
Proof. unfold rd, lrd, labs. change (@nil aresult) with (items empty_coll). symmetry. apply map_nth. Qed.

Lemma abs_wr s r c : labs (wr s r c) = lwr (labs s) r (items c).
Proof.
  unfold wr, lwr, labs. revert r. induction s as [|x s IH]; intros [|r]; simpl; try reflexivity.
  rewrite IH. reflexivity.
Qed.

Definition res_map {A B} (f : A -> B) (r : result A) : result B :=
  match r with Ok a => Ok (f a) | Err e => Err e end.

Theorem step_refines s o : res_map labs (step s o) = lstep (labs s) o.
Proof.
  destruct o; cbn [step lstep]; rewrite <- ?abs_rd;
    try (cbn [res_map]; rewrite abs_wr; cbn [items c_append c_extend with_items_recompute empty_coll];
         rewrite ?c_of_list_items, ?fold_append_items; reflexivity).
  - (* Remove *) destruct (find_index r _); cbn [res_map]; [rewrite abs_wr|]; reflexivity.
  - (* Pop *) destruct (norm_index i _); cbn [res_map]; [rewrite abs_wr|]; reflexivity.
  - (* GetSlice *) destruct (slice_indices s0 _) as [[[idx st] sp]|]; cbn [bind res_map]; [|reflexivity].
    rewrite abs_wr, c_of_list_items. reflexivity.
  - (* GetItem *) destruct (norm_index i _); reflexivity.
  - (* SetItem *) destruct (norm_index i _); cbn [res_map]; [rewrite abs_wr|]; reflexivity.
  - (* SetSlice *) destruct (slice_indices s0 _) as [[[idx st] sp]|]; cbn [bind res_map]; [|reflexivity].
    destruct (s_step s0) as [[|p|p]|]; try destruct p; try destruct (Nat.eqb _ _);
      cbn [res_map]; rewrite ?abs_wr; reflexivity.
  - (* DelItem *) destruct (norm_index i _); cbn [res_map]; [rewrite abs_wr|]; reflexivity.
  - (* DelSlice *) destruct (slice_indices s0 _) as [[[idx st] sp]|]; cbn [bind res_map]; [|reflexivity].
    rewrite abs_wr. reflexivity.
Qed.

(* an operation raises exactly when the plain-list operation raises, with the same exception *)
Corollary step_raises_iff s o e : step s o = Err e <-> lstep (labs s) o = Err e.
Proof.
  rewrite <- step_refines. destruct (step s o); cbn [res_map]; split; intros H; try discriminate;
    injection H as ->; reflexivity.
Qed.

(* whole programs: the lists held after any sequence are those of the list program *)
Definition lstep_total (s : lstore) (o : aop) : lstore := match lstep s o with Ok s' => s' | Err _ => s end.
Definition lrun (ops : list aop) : lstore := fold_left lstep_total ops [[]; []; []].

Theorem run_refines ops : labs (run ops) = lrun ops.
Proof.
  unfold run, lrun. change [[]; []; []] with (labs init_store). generalize init_store.
  induction ops as [|o ops IH]; intros s; cbn [fold_left]; [reflexivity|].
  rewrite IH. f_equal. unfold step_total, lstep_total. rewrite <- step_refines.
  destruct (step s o); reflexivity.
Qed.

(* with the invariant: after any program, in every register, best is None iff the plain list is empty,
   and otherwise a member of the plain list with the smallest value *)
Theorem run_best_of_list ops r :
  match best (rd (run ops) r) with
  | None => lrd (lrun ops) r = []
  | Some b => In b (lrd (lrun ops) r) /\ forall x, In x (lrd (lrun ops) r) -> rval b <= rval x
  end.
Proof. rewrite <- run_refines, <- abs_rd. exact (run_inv ops r). Qed.
