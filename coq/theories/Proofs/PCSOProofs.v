(* C03: the PCSO constraint methods, through the boolean/spin correspondence of C04 and the PCBO theorem of C02 *)
From QV.Model Require Import Base Matrix Arith Expr Extrema Sat PCBO Convert PCSO.
From QV.Proofs Require Import BaseProofs KeyProofs ArithProofs ExprProofs InvProofs ConvertProofs PenaltyArith PCBOProofs.
From Coq Require Import Lia Lqa Qfield.
Open Scope Q_scope.

Definition pen_nonneg_S (G : env -> Q) : Prop := forall z, spin_env z -> 0 <= G z.
Definition pen_rel_S (R : Q -> Prop) (fr : label -> Prop) (pv G : env -> Q) : Prop :=
  pen_nonneg_S G /\
  (forall z, spin_env z -> R (pv z) -> exists z', spin_env z' /\ agree_off fr z z' /\ G z' == 0) /\
  (forall z, spin_env z -> ~ R (pv z) -> 1 <= G z).
Definition int_vS (pv : env -> Q) : Prop := forall z, spin_env z -> is_int (pv z).
Definition bvalid_S (pv : env -> Q) (b : bounds) : Prop :=
  (forall l, fst b = Some l -> forall z, spin_env z -> l <= pv z) /\
  (forall h, snd b = Some h -> forall z, spin_env z -> pv z <= h).
Definition step_ok_S (m m' : model) (lam : Q) (G : env -> Q) : Prop :=
  forall z, spin_env z -> eval z (tm m') == eval z (tm m) + lam * G z.

Lemma eval_b2s_s2b z t : eval (b2s (s2b z)) t == eval z t.
Proof. apply eval_ext. intros i. apply b2s_s2b. Qed.

Theorem pcso_add_spec r m Hin lam lt b m' w t :
  pcso_add r m Hin lam lt b = Ok (m', w, t) -> kd m = KPcso -> ~ lam == 0 ->
  let pv := fun z => eval z Hin in
  int_vS pv -> bvalid_S pv b -> no_anc Hin ->
  exists G H, m_create KPuso Hin = Ok H /\ step_ok_S m m' lam G /\ kd m' = KPcso /\ cons m' = cons m ++ [(r, tm H)]
    /\ (anc m <= anc m')%nat /\ pen_nonneg_S G
    /\ (w <> WUnsat -> pen_rel_S (rel_prop r) (fresh_lbl (anc m) (anc m')) pv G).
Proof.
  intros Hc Hk Hlam pv Hint Hb Hna. unfold pcso_add in Hc.
  destruct (m_create KPuso Hin) as [H|] eqn:EH; cbn [bind] in Hc; [|discriminate].
  set (m1 := append_constraint m r (tm H)) in *.
  destruct (qeq0 lam) eqn:El; [apply qeq0_spec in El; contradiction|].
  destruct (puso_to_pubo (Some KPuso) (tm H)) as [Pb|] eqn:EPb; cbn [bind] in Hc; [|discriminate].
  destruct (add_constraint r (with_anc empty_pcbo (anc m1)) (tm Pb) lam lt b) as [[[h w'] t']|] eqn:Eadd; cbn [bind] in Hc; [|discriminate].
  destruct (pubo_to_puso (Some KPcbo) (tm h)) as [S|] eqn:ES; cbn [bind] in Hc; [|discriminate].
  destruct (m_iadd (with_anc m1 (anc h)) (OModel S)) as [m2|] eqn:Em; cbn [bind] in Hc; [|discriminate].
  injection Hc as <- <- <-.
  (* the spin polynomial as recorded, and its boolean form *)
  assert (VH : forall z, spin_env z -> eval z (tm H) == eval z Hin).
  { intros z Hz. destruct (m_create_eval z _ _ _ EH Hz) as [A _]. exact A. }
  assert (VPb : forall x, boolean_env x -> eval x (tm Pb) == eval (b2s x) Hin).
  { intros x Hx. destruct (puso_to_pubo_sound _ _ _ x EPb Hx) as [A _]. rewrite A. apply VH, b2s_spin, Hx. }
  set (m0 := with_anc empty_pcbo (anc m1)) in *.
  assert (Hk0 : bkind (kd m0)) by apply bkind_pcbo.
  assert (HintB : int_v (fun x => eval x (tm Pb))).
  { intros x Hx. eapply is_int_ext; [symmetry; apply VPb, Hx| apply Hint, b2s_spin, Hx]. }
  assert (HbB : bvalid (fun x => eval x (tm Pb)) b).
  { destruct Hb as [Bl Bh]. split; intros v Hv x Hx; rewrite (VPb x Hx); [eapply Bl| eapply Bh]; try eassumption; apply b2s_spin, Hx. }
  assert (HindB : forall n, indep (fresh_lbl (anc m0) (anc m0 + n)) (fun x => eval x (tm Pb))).
  { intros n x x' Hx Hx' Ha. rewrite (VPb x Hx), (VPb x' Hx'). apply eval_ext_in. intros k v l Hin0 Hl.
    unfold b2s. rewrite (Ha l); [reflexivity|]. intros (j & _ & Hj). apply (Hna k v l j Hin0 Hl Hj). }
  destruct (add_constraint_spec _ _ _ _ _ _ _ _ _ Eadd Hk0 Hlam HintB HbB HindB) as (G & P3 & _ & Sb & _ & Fa & NN & PR).
  simpl in Fa.
  (* the penalty on the spin side *)
  assert (HS : forall z, spin_env z -> eval z (tm S) == lam * G (s2b z)).
  { intros z Hz. destruct (pubo_to_puso_sound _ _ _ z ES Hz) as [A _]. rewrite A.
    rewrite (Sb (s2b z) (s2b_bool z Hz)). simpl. ring. }
  assert (Hstep : step_ok_S m m2 lam (fun z => G (s2b z))).
  { intros z Hz. destruct (m_iadd_eval z _ _ _ Em) as [A _]; [simpl; rewrite Hk; exact Hz|].
    rewrite A. simpl. rewrite (HS z Hz). reflexivity. }
  destruct (m_iadd_frame _ _ _ Em) as (F1 & F2 & F3). simpl in F1, F2, F3.
  exists (fun z => G (s2b z)), H. split; [reflexivity|]. split; [exact Hstep|]. split; [congruence|]. split; [exact F3|].
  split; [rewrite F2; exact Fa|]. split; [intros z Hz; apply NN, s2b_bool, Hz|]. intros Hw.
  destruct (PR Hw) as (A & B0 & C0). rewrite F2.
  assert (Hpv : forall z, spin_env z -> eval (s2b z) (tm Pb) == pv z).
  { intros z Hz. rewrite (VPb _ (s2b_bool z Hz)). apply eval_b2s_s2b. }
  assert (HRext : forall a0 b0, a0 == b0 -> rel_prop r a0 -> rel_prop r b0).
  { intros a0 b0 Hab. destruct r; simpl; rewrite Hab; auto. }
  split; [intros z Hz; apply A, s2b_bool, Hz|]. split.
  - intros z Hz HR. destruct (B0 (s2b z) (s2b_bool z Hz)) as (x' & Hx' & Hag & Hz0).
    { eapply HRext; [symmetry; apply Hpv, Hz| exact HR]. }
    exists (b2s x'). split; [apply b2s_spin, Hx'|]. split.
    + intros l Hl. unfold b2s. rewrite (Hag l Hl). apply b2s_s2b.
    + rewrite <- Hz0. assert (E : forall i, s2b (b2s x') i == x' i) by (intros i; apply s2b_b2s).
      (* G only sees its argument through evaluation: use the evaluation identity on both assignments *)
      pose proof (Sb (s2b (b2s x')) (s2b_bool _ (b2s_spin _ Hx'))) as S1. pose proof (Sb x' Hx') as S2.
      simpl in S1, S2. rewrite (eval_ext _ _ (tm h) E) in S1.
      assert (lam * G (s2b (b2s x')) == lam * G x') by lra.
      apply (Qmult_inj_l _ _ lam Hlam). exact H0.
  - intros z Hz HR. apply (C0 (s2b z) (s2b_bool z Hz)). intros Hc. apply HR. eapply HRext; [apply Hpv, Hz| exact Hc].
Qed.

(* the conclusion of one spin call, packaged *)
Definition call_result_S (r : rel) (m m' : model) (lam : Q) (Hin : terms) (w : warn) : Prop :=
  let pv := fun z => eval z Hin in
  exists G H, m_create KPuso Hin = Ok H /\ step_ok_S m m' lam G /\ kd m' = KPcso /\ cons m' = cons m ++ [(r, tm H)]
    /\ (anc m <= anc m')%nat /\ pen_nonneg_S G
    /\ (w <> WUnsat -> pen_rel_S (rel_prop r) (fresh_lbl (anc m) (anc m')) pv G).

Fixpoint run_calls_S (m : model) (cs : list ccall) : result model :=
  match cs with
  | [] => Ok m
  | c :: cs' => bind (pcso_add (cc_rel c) m (cc_P c) (cc_lam c) (cc_log c) (cc_bounds c)) (fun '(m', _, _) => run_calls_S m' cs')
  end.
Definition call_ok_S (c : ccall) : Prop :=
  0 < cc_lam c /\ int_vS (fun z => eval z (cc_P c)) /\ bvalid_S (fun z => eval z (cc_P c)) (cc_bounds c) /\ no_anc (cc_P c).
Inductive seq_result_S : model -> list ccall -> model -> Prop :=
| seqS_nil m : seq_result_S m [] m
| seqS_cons m c cs m1 m' w :
    call_result_S (cc_rel c) m m1 (cc_lam c) (cc_P c) w ->
    seq_result_S m1 cs m' -> seq_result_S m (c :: cs) m'.

Theorem run_calls_S_spec cs : forall m m', run_calls_S m cs = Ok m' -> kd m = KPcso -> Forall call_ok_S cs -> seq_result_S m cs m'.
Proof.
  induction cs as [|c cs IH]; simpl; intros m m' H Hk Hok.
  - injection H as <-. constructor.
  - destruct (pcso_add (cc_rel c) m (cc_P c) (cc_lam c) (cc_log c) (cc_bounds c)) as [[[m1 w] t]|] eqn:E; cbn [bind] in H; [|discriminate].
    inversion Hok as [|? ? (Hl & Hi & Hb & Hn) Hok']; subst.
    assert (Hlam : ~ cc_lam c == 0) by (intros Hz; rewrite Hz in Hl; apply (Qlt_irrefl 0), Hl).
    pose proof (pcso_add_spec _ _ _ _ _ _ _ _ _ E Hk Hlam Hi Hb Hn) as CR.
    econstructor; [exact CR|]. apply IH; [exact H| |exact Hok'].
    destruct CR as (G & P & _ & _ & K & _). exact K.
Qed.
Lemma seq_result_S_anc m cs m' : seq_result_S m cs m' -> (anc m <= anc m')%nat.
Proof. induction 1 as [|m c cs m1 m' w (G & P & _ & _ & _ & _ & Ha & _) _ IH]; lia. Qed.

Theorem pcso_valid_iff m z :
  pcso_is_solution_valid m z = true <-> forall r P, In (r, P) (cons m) -> rel_prop r (eval z P).
Proof.
  unfold pcso_is_solution_valid. rewrite forallb_forall. split.
  - intros H r P Hin. apply rel_holds_prop. apply (H (r, P) Hin).
  - intros H [r P] Hin. apply rel_holds_prop. apply (H r P Hin).
Qed.
