From QV.Model Require Import Base Matrix Arith Expr Sat.
Open Scope Q_scope.
Definition cin := sx.
Inductive cout := OModelOut (k : kind) (t : terms) | OErr (e : err).
Definition run_case (c : cin) : cout :=
  match build c with
  | Ok (OModel m) => OModelOut (kd m) (tm m)
  | Ok _ => OErr TypeError
  | Err e => OErr e
  end.
Definition out_eqb (a b : cout) : bool :=
  match a, b with
  | OModelOut k t, OModelOut k' t' => kind_eqb k k' && map_eqb t t'
  | OErr e, OErr e' => err_eqb e e'
  | _, _ => false
  end.
