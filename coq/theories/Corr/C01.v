(* correspondence entry points for C01: the to_* methods of PUBO / PCBO / PUSO / PCSO *)
From QV.Model Require Import Base Matrix Convert Reduce.
Open Scope Q_scope.

Record cin := { d_kind : kind; d_terms : terms; d_upd : terms; d_meth : nat;     (* 0 to_pubo 1 to_qubo 2 to_quso 3 to_puso *)
                d_deg : option nat; d_lam : lam_spec; d_pairs : list key;
                d_mp : option (list (label * nat)) }.     (* set_mapping / set_reverse_mapping before the conversion *)
Inductive cout := OModelOut (k : kind) (t : terms) | OErr (e : err).

Definition run_case (c : cin) : cout :=
  match bind (m_create (d_kind c) (d_terms c)) (fun m => bind (m_update m (d_upd c)) (fun m0 =>
          let m := match d_mp c with None => m0 | Some l => set_mapping m0 l end in
          if is_spin (d_kind c) then
            match d_meth c with
            | 0%nat => puso_to_pubo_m m (d_deg c) (d_lam c) (d_pairs c)
            | 1%nat => puso_to_qubo_m m (d_lam c) (d_pairs c)
            | 2%nat => puso_to_quso_m m (d_lam c) (d_pairs c)
            | _ => puso_to_puso_m m (d_deg c) (d_lam c) (d_pairs c)
            end
          else
            match d_meth c with
            | 0%nat => pubo_to_pubo m (d_deg c) (d_lam c) (d_pairs c)
            | 1%nat => pubo_to_qubo m (d_lam c) (d_pairs c)
            | 2%nat => pubo_to_quso m (d_lam c) (d_pairs c)
            | _ => pubo_to_puso_m m (d_deg c) (d_lam c) (d_pairs c)
            end)) with
  | Ok r => OModelOut (kd r) (tm r)
  | Err e => OErr e
  end.
Definition out_eqb (a b : cout) : bool :=
  match a, b with
  | OModelOut k t, OModelOut k' t' => kind_eqb k k' && map_eqb t t'
  | OErr e, OErr e' => err_eqb e e'
  | _, _ => false
  end.
