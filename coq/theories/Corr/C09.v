(* correspondence entry points for C09 *)
From QV.Model Require Import Base Bruteforce.
Open Scope Q_scope.

Record cin := { c_spin : bool; c_vars : list label; c_D : terms; c_all : bool; c_valid : vpred; c_exact : bool }.
(* b_mins: model side only (all minimisers), used to accept any minimiser when the tie-break order is not fixed *)
Record cout := { b_obj : option Q; b_sols : list asg; b_mins : list asg; b_all : bool; b_exact : bool }.

Definition run_case (c : cin) : cout :=
  let valid := vpred_eval (c_spin c) (c_valid c) in
  let '(obj, sols) := solve (c_spin c) (c_vars c) (c_D c) (c_all c) valid in
  let '(_, mins) := solve (c_spin c) (c_vars c) (c_D c) true valid in
  {| b_obj := obj; b_sols := sols; b_mins := mins; b_all := c_all c; b_exact := c_exact c |}.

Definition mem_asg (a : asg) (l : list asg) : bool := existsb (asg_eqb a) l.
Fixpoint asgl_eqb (a b : list asg) : bool :=
  match a, b with
  | [], [] => true
  | x :: a', y :: b' => asg_eqb x y && asgl_eqb a' b'
  | _, _ => false
  end.
(* a = the model's run, b = what the implementation returned *)
Definition out_eqb (a b : cout) : bool :=
  match b_obj a, b_obj b with
  | None, None => asgl_eqb (b_sols a) (b_sols b)
  | Some x, Some y =>
      Qeq_bool x y &&
      (if b_all a then
         Nat.eqb (length (b_sols a)) (length (b_sols b))
         && forallb (fun s => mem_asg s (b_sols a)) (b_sols b)
         && forallb (fun s => mem_asg s (b_sols b)) (b_sols a)
         && (if b_exact a then asgl_eqb (b_sols a) (b_sols b) else true)
       else
         match b_sols b with
         | [s] => mem_asg s (b_mins a) && (if b_exact a then asgl_eqb (b_sols a) [s] else true)
         | _ => false
         end)
  | _, _ => false
  end.
