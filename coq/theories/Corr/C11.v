(* correspondence entry points for the annealers (C11, C12, C17 share them) *)
From QV.Model Require Import Base Matrix Convert Reduce Anneal.
From Coq Require Import NArith.
Open Scope Q_scope.

Record cin := { a_fn : nat;                        (* 0 anneal_quso 1 anneal_puso 2 anneal_qubo 3 anneal_pubo *)
                a_src : option kind; a_terms : terms; a_upd : terms;
                a_mp : option (list (label * nat));      (* set_mapping / set_reverse_mapping before the call (labelled models) *)
                a_tab : exptab; a_Ts : list Q; a_num : Z; a_in_order : bool;
                a_init : option (list (label * Z)); a_seed : N }.
Definition cout := aout.

Definition mk_src (c : cin) : result asrc :=
  match a_src c with
  | None => Ok (SrcDict (a_terms c))
  | Some k => bind (m_create k (a_terms c)) (fun m => bind (m_update m (a_upd c)) (fun m' =>
                Ok (SrcModel (match a_mp c with Some l => set_mapping m' l | None => m' end))))
  end.

Definition run_case (c : cin) : cout :=
  match mk_src c with
  | Err e => AErr e
  | Ok s =>
      match a_fn c with
      | 0%nat => run_spin true s (a_tab c) (a_Ts c) (a_num c) (a_in_order c) (a_init c) (a_seed c)
      | 1%nat => run_spin false s (a_tab c) (a_Ts c) (a_num c) (a_in_order c) (a_init c) (a_seed c)
      | 2%nat => run_bool true s (a_tab c) (a_Ts c) (a_num c) (a_in_order c) (a_init c) (a_seed c)
      | _ => run_bool false s (a_tab c) (a_Ts c) (a_num c) (a_in_order c) (a_init c) (a_seed c)
      end
  end.

Fixpoint state_eqb (a b : list (label * Z)) : bool :=
  match a, b with
  | [], [] => true
  | (l, v) :: a', (l', v') :: b' => Nat.eqb l l' && Z.eqb v v' && state_eqb a' b'
  | _, _ => false
  end.
Fixpoint res_eqb (a b : list (list (label * Z) * Q)) : bool :=
  match a, b with
  | [], [] => true
  | (s, v) :: a', (s', v') :: b' => state_eqb s s' && Qeq_bool v v' && res_eqb a' b'
  | _, _ => false
  end.
(* a = the model's run (Unknown when the exp table could not settle a decision: not a disagreement) *)
Definition out_eqb (a b : cout) : bool :=
  match a, b with
  | AResults l, AResults l' => res_eqb l l'
  | AUnknown, _ => true
  | AErr e, AErr e' => err_eqb e e'
  | _, _ => false
  end.
Definition tag_of (c : cin) : list nat := match run_case c with AUnknown => [1%nat] | AResults _ => [0%nat] | AErr _ => [2%nat] end.
