(* correspondence entry points for C08: the whole workflow -- objective + constraints, brute force on the
   constrained model, reduction / conversion, brute force on the target form, convert_solution,
   remove_ancilla_from_solution *)
From QV.Model Require Import Base Matrix Arith Expr Extrema Sat PCBO Logic Convert PCSO Reduce Bruteforce.
From QV.Corr Require C02 C06.
From Coq Require Import Qround.
Open Scope Q_scope.

Inductive wcall := WCmp (c : C02.call) | WLogic (c : C06.lcall).
Record cin := { w_spin : bool; w_obj : terms; w_calls : list wcall;
                w_target : nat;                   (* 0 to_pubo(deg) 1 to_qubo 2 to_quso 3 to_puso(deg) *)
                w_deg : option nat }.
(* sets of assignments as association lists sorted by label *)
Definition sol := list (label * Q).
Record cout := { o_err : option err;
                 o_obj : option Q; o_sols : list sol;           (* H.solve_bruteforce(all_solutions=True), value of a solution *)
                 o_dmin : option Q; o_conv : list sol }.        (* minimum of the target form; its minimisers after
                                                                    convert_solution + remove_ancilla_from_solution *)

Fixpoint build (m : model) (cs : list wcall) : result model :=
  match cs with
  | [] => Ok m
  | WCmp c :: cs' =>
      bind (if is_spin (kd m) then pcso_add (C02.c_rel c) m (C02.c_P c) (C02.c_lam c) (C02.c_log c) (C02.c_bounds c)
            else add_constraint (C02.c_rel c) m (C02.c_P c) (C02.c_lam c) (C02.c_log c) (C02.c_bounds c))
           (fun '(m', _, _) => build m' cs')
  | WLogic c :: cs' =>
      bind (add_logic (C06.l_gate c) (C06.l_eq c) m (C06.l_ops c) (C06.l_lam c)) (fun '(m', _, _) => build m' cs')
  end.

Fixpoint ins_sol (p : label * Q) (s : sol) : sol :=
  match s with [] => [p] | q :: s' => if (fst p <=? fst q)%nat then p :: s else q :: ins_sol p s' end.
Definition sort_sol (s : sol) : sol := fold_right ins_sol [] s.
Definition to_sol (vars : list label) (a : asg) : sol := sort_sol (combine vars a).

(* the labels in mapping order: what the labelled brute force enumerates *)
Definition mvars (m : model) : list label := map fst (mp m).
Definition key_labels (t : terms) : list label := fold_left (fun vs '(k, _) => add_vars vs k) t [].

Definition zq (v : Q) : Z := Qfloor v.
Definition run_case (c : cin) : cout :=
  let k := if w_spin c then KPcso else KPcbo in
  match bind (m_create k (w_obj c)) (fun m => build m (w_calls c)) with
  | Err e => {| o_err := Some e; o_obj := None; o_sols := []; o_dmin := None; o_conv := [] |}
  | Ok H =>
      let valid a := (if w_spin c then pcso_is_solution_valid else is_solution_valid) H (env_of_asg (mvars H) a) in
      let '(obj, sols) := solve (w_spin c) (mvars H) (tm H) true valid in
      let D := if w_spin c then
                 match w_target c with
                 | 0%nat => puso_to_pubo_m H (w_deg c) LDefault [] | 1%nat => puso_to_qubo_m H LDefault []
                 | 2%nat => puso_to_quso_m H LDefault [] | _ => puso_to_puso_m H (w_deg c) LDefault []
                 end
               else
                 match w_target c with
                 | 0%nat => pubo_to_pubo H (w_deg c) LDefault [] | 1%nat => pubo_to_qubo H LDefault []
                 | 2%nat => pubo_to_quso H LDefault [] | _ => pubo_to_puso_m H (w_deg c) LDefault []
                 end in
      match D with
      | Err e => {| o_err := Some e; o_obj := obj; o_sols := map (to_sol (mvars H)) sols; o_dmin := None; o_conv := [] |}
      | Ok Dm =>
          let dspin := match w_target c with 2%nat | 3%nat => true | _ => false end in
          let dvars := key_labels (tm Dm) in
          let '(dmin, dsols) := solve dspin dvars (tm Dm) true (fun _ => true) in
          let conv a :=
            match convert_solution (w_spin c) H (map (fun '(l, v) => (l, zq v)) (combine dvars a)) dspin with
            | Ok s => Some (sort_sol (map (fun '(l, v) => (l, inject_Z v)) (filter (fun p => negb (is_anc_label (fst p))) s)))
            | Err _ => None
            end in
          {| o_err := if existsb (fun a => match conv a with None => true | Some _ => false end) dsols then Some KeyError else None;
             o_obj := obj; o_sols := map (to_sol (mvars H)) sols; o_dmin := dmin;
             o_conv := flat_map (fun a => match conv a with Some s => [s] | None => [] end) dsols |}
      end
  end.

Fixpoint sol_eqb (a b : sol) : bool :=
  match a, b with
  | [], [] => true
  | (l, v) :: a', (l', v') :: b' => Nat.eqb l l' && Qeq_bool v v' && sol_eqb a' b'
  | _, _ => false
  end.
Definition sol_mem (s : sol) (l : list sol) : bool := existsb (sol_eqb s) l.
Definition set_eqb (a b : list sol) : bool := forallb (fun s => sol_mem s b) a && forallb (fun s => sol_mem s a) b.
Definition optq_eqb (a b : option Q) : bool :=
  match a, b with None, None => true | Some x, Some y => Qeq_bool x y | _, _ => false end.
Definition out_eqb (a b : cout) : bool :=
  match o_err a, o_err b with
  | Some x, Some y => err_eqb x y
  | None, None => optq_eqb (o_obj a) (o_obj b) && set_eqb (o_sols a) (o_sols b)
                  && optq_eqb (o_dmin a) (o_dmin b) && set_eqb (o_conv a) (o_conv b)
  | _, _ => false
  end.
