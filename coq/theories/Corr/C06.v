(* correspondence entry points for C06: logic constraint methods on a PCBO *)
From QV.Model Require Import Base Matrix Arith Expr Extrema Sat PCBO Logic.
From QV.Corr Require Import C02.
Open Scope Q_scope.

Record lcall := { l_gate : gate; l_eq : bool; l_ops : list sx; l_lam : Q }.
Definition cin := (terms * list lcall)%type.
Definition cout := (list obs * option err)%type.

Fixpoint run_calls (m : model) (cs : list lcall) : list obs * option err :=
  match cs with
  | [] => ([], None)
  | c :: cs' =>
      match add_logic (l_gate c) (l_eq c) m (l_ops c) (l_lam c) with
      | Ok (m', w, _) =>
          let '(l, e) := run_calls m' cs' in
          ({| o_tm := tm m'; o_anc := anc m'; o_cons := group_cons (cons m'); o_warn := w; o_vars := vars_c m' |} :: l, e)
      | Err x => ([], Some x)
      end
  end.
Definition run_case (c : cin) : cout :=
  match m_create KPcbo (fst c) with
  | Ok m => run_calls m (snd c)
  | Err x => ([], Some x)
  end.
Definition out_eqb := C02.out_eqb.
