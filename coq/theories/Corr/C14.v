(* correspondence entry points for C14: observation of the bookkeeping after every edit *)
From QV.Model Require Import Base Matrix Arith Expr Extrema Sat PCBO Convert PCSO.
From QV.Proofs Require Import InvProofs InvConstraint.
Open Scope Q_scope.

Record obs := { o_tm : terms; o_deg : option nat; o_vars : list label; o_n : nat; o_mp : list (label * nat); o_anc : nat }.

Definition observe (m : model) : obs :=
  {| o_tm := tm m; o_deg := deg_c m; o_vars := vars_c m; o_n := num_vars m; o_mp := mp m; o_anc := anc m |}.

(* the edits of the C14 theorems: item / arithmetic edits and the constraint methods (Proofs/InvConstraint.v) *)
Fixpoint run_obs (m : model) (es : list hedit) : list obs * option err :=
  match es with
  | [] => ([], None)
  | e :: es' => match apply_hedit m e with
                | Ok m' => let '(l, r) := run_obs m' es' in (observe m' :: l, r)
                | Err x => ([], Some x)
                end
  end.

Definition mk_operand (k : option kind) (t : terms) : operand :=
  match k with
  | None => ORaw t
  | Some k' => match m_create k' t with Ok b => OModel b | Err _ => ORaw [] end
  end.

Definition cin := (kind * terms * list hedit)%type.
Definition cout := (list obs * option err)%type.

Definition run_case (c : cin) : cout :=
  let '(k, t, es) := c in
  match m_create k t with
  | Ok m => let '(l, r) := run_obs m es in (observe m :: l, r)
  | Err x => ([], Some x)
  end.

Fixpoint sorted_ins (x : label) (l : list label) : list label :=
  match l with [] => [x] | y :: l' => if (x <=? y)%nat then x :: l else y :: sorted_ins x l' end.
Definition sort_labels (l : list label) : list label := fold_right sorted_ins [] l.
Definition labels_eqb (a b : list label) : bool := key_eqb (sort_labels a) (sort_labels b).
Definition optnat_eqb (a b : option nat) : bool :=
  match a, b with None, None => true | Some x, Some y => Nat.eqb x y | _, _ => false end.
Fixpoint mp_eqb (a b : list (label * nat)) : bool :=
  match a, b with
  | [], [] => true
  | (x, n) :: a', (y, m) :: b' => Nat.eqb x y && Nat.eqb n m && mp_eqb a' b'
  | _, _ => false
  end.
Definition obs_eqb (a b : obs) : bool :=
  map_eqb (o_tm a) (o_tm b) && optnat_eqb (o_deg a) (o_deg b) && labels_eqb (o_vars a) (o_vars b)
  && Nat.eqb (o_n a) (o_n b) && mp_eqb (o_mp a) (o_mp b) && Nat.eqb (o_anc a) (o_anc b).
Fixpoint obsl_eqb (a b : list obs) : bool :=
  match a, b with
  | [], [] => true
  | x :: a', y :: b' => obs_eqb x y && obsl_eqb a' b'
  | _, _ => false
  end.
Definition out_eqb (a b : cout) : bool :=
  obsl_eqb (fst a) (fst b) &&
  match snd a, snd b with None, None => true | Some x, Some y => err_eqb x y | _, _ => false end.
