From QV.Model Require Import Base Matrix Arith Expr Extrema Sat PCBO Convert PCSO.
From QV.Corr Require Import C02.
Open Scope Q_scope.
Definition cin := C02.cin.
Definition cout := C02.cout.
Fixpoint run_calls (m : model) (cs : list call) : list obs * option err :=
  match cs with
  | [] => ([], None)
  | c :: cs' =>
      match pcso_add (c_rel c) m (c_P c) (c_lam c) (c_log c) (c_bounds c) with
      | Ok (m', w, _) =>
          let '(l, e) := run_calls m' cs' in
          ({| o_tm := tm m'; o_anc := anc m'; o_cons := group_cons (cons m'); o_warn := w; o_vars := vars_c m' |} :: l, e)
      | Err x => ([], Some x)
      end
  end.
Definition run_case (c : cin) : cout :=
  match m_create KPcso (fst c) with
  | Ok m => run_calls m (snd c)
  | Err x => ([], Some x)
  end.
Definition out_eqb := C02.out_eqb.
