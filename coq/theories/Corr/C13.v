(* correspondence entry points for C13: contents and best of the written register after every operation *)
From QV.Model Require Import Base AnnealResults.
Open Scope Q_scope.

(* observation: outcome of the op, then (values, spins, bits) of the observed register and best's value *)
Record obs := { o_err : option err; o_items : list aresult; o_best : option aresult }.

Definition target (o : aop) : reg :=
  match o with
  | Construct d _ | Append d _ | Insert d _ _ | Remove d _ | Pop d _ | Extend d _ | ExtendList d _
  | SetItem d _ _ | SetSlice d _ _ | DelItem d _ | DelSlice d _ | Clear d | Sort d _ => d
  | Add k _ _ | AddList k _ _ | Mul k _ _ | GetSlice k _ _ | Copy k _ | Filter k _ _ | FilterStates k _ _
  | Apply k _ _ | Convert k _ _ | ToBool k _ | ToSpin k _ => k
  | GetItem a _ => a
  end.

Fixpoint run_obs (s : store) (ops : list aop) : list obs :=
  match ops with
  | [] => []
  | o :: ops' =>
      let '(s', e) := match step s o with Ok s' => (s', None) | Err x => (s, Some x) end in
      let c := rd s' (target o) in
      {| o_err := e; o_items := items c; o_best := best c |} :: run_obs s' ops'
  end.

Definition cin := list aop.
Definition cout := list obs.
Definition run_case (c : cin) : cout := run_obs init_store c.

Fixpoint rl_eqb (a b : list aresult) : bool :=
  match a, b with
  | [], [] => true
  | x :: a', y :: b' => r_eqb x y && rl_eqb a' b'
  | _, _ => false
  end.
Definition obs_eqb (a b : obs) : bool :=
  match o_err a, o_err b with None, None => true | Some x, Some y => err_eqb x y | _, _ => false end
  && rl_eqb (o_items a) (o_items b)
  && match o_best a, o_best b with
     | None, None => true
     | Some x, Some y => Qeq_bool (rval x) (rval y)    (* which of several tied minima is not prescribed *)
     | _, _ => false
     end.
Fixpoint out_eqb (a b : cout) : bool :=
  match a, b with
  | [], [] => true
  | x :: a', y :: b' => obs_eqb x y && out_eqb a' b'
  | _, _ => false
  end.
