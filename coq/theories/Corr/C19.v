(* correspondence entry points for C19: info round trip after a history of edits and constraints *)
From QV.Model Require Import Base Matrix Arith Expr Extrema Sat PCBO Convert PCSO Info.
From QV.Proofs Require Import InvProofs.
From QV.Corr Require Import C02.
Open Scope Q_scope.

Record cin := { c_kind : kind; c_init : terms; c_edits : list edit; c_calls : list call; c_post : list edit;   (* edits after the constraints *)
                c_name : option nat }.
Record iout := { r_kind : kind; r_terms : terms; r_name : option nat; r_mp : list (label * nat); r_anc : nat;
                 r_cons : list (rel * terms) }.
Inductive cout := OInfo (i : iout) | OErr (e : err).

Fixpoint add_calls (m : model) (cs : list call) : result model :=
  match cs with
  | [] => Ok m
  | c :: cs' =>
      bind (if is_spin (kd m) then pcso_add (c_rel c) m (c_P c) (c_lam c) (c_log c) (c_bounds c)
            else add_constraint (c_rel c) m (c_P c) (c_lam c) (c_log c) (c_bounds c))
           (fun '(m', _, _) => add_calls m' cs')
  end.

Definition with_name (m : model) (n : option nat) : model :=
  {| kd := kd m; tm := tm m; deg_c := deg_c m; vars_c := vars_c m; mp := mp m; next_label := next_label m;
     anc := anc m; cons := cons m; nm := n |}.

Definition run_case (c : cin) : cout :=
  match bind (m_create (c_kind c) (c_init c)) (fun m =>
        bind (run_edits m (c_edits c)) (fun m1 =>
        bind (add_calls m1 (c_calls c)) (fun m2 =>
        bind (run_edits m2 (c_post c)) (fun m3 =>
        create_from_info (get_info (with_name m3 (c_name c))))))) with
  | Ok r => OInfo {| r_kind := kd r; r_terms := tm r; r_name := nm r; r_mp := mp r; r_anc := anc r;
                     r_cons := group_cons (cons r) |}
  | Err e => OErr e
  end.

Fixpoint mp_eqb (a b : list (label * nat)) : bool :=
  match a, b with
  | [], [] => true
  | (x, n) :: a', (y, m) :: b' => Nat.eqb x y && Nat.eqb n m && mp_eqb a' b'
  | _, _ => false
  end.
Definition out_eqb (a b : cout) : bool :=
  match a, b with
  | OInfo x, OInfo y =>
      kind_eqb (r_kind x) (r_kind y) && map_eqb (r_terms x) (r_terms y)
      && match r_name x, r_name y with None, None => true | Some p, Some q => Nat.eqb p q | _, _ => false end
      && mp_eqb (r_mp x) (r_mp y) && Nat.eqb (r_anc x) (r_anc y) && cons_eqb (r_cons x) (r_cons y)
  | OErr e, OErr e' => err_eqb e e'
  | _, _ => false
  end.
