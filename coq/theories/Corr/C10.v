(* correspondence entry points for C10: the QUBO / QUSO each problem class produces *)
From QV.Model Require Import Base Matrix Arith Expr Extrema Sat PCBO Logic Convert PCSO Problems.
Open Scope Q_scope.

Inductive cin :=
| PVertexCover (N : nat) (edges : list (nat * nat)) (A B : Q)
| PNumberPartitioning (S : list Q) (A : Q)
| PGraphPartitioning (N : nat) (edges : list (nat * nat * Q)) (all_edges : list (nat * nat)) (A : option Q) (B : Q)
| PSetCover (n : nat) (V : list (list nat)) (weights : list Q) (log_trick : bool) (M : nat) (A B : Q)
| PBilp (c : list Q) (S : list (list Q)) (b : list Q) (A : option Q) (B : Q)
| PJobSequencing (lengths : list Q) (m : nat) (log_trick : bool) (M : nat) (A : option Q) (B : Q)
| PChain (N chain : nat) (min_s max_s : Q) (pbc : bool).

Inductive cout := OMatrix (k : kind) (t : terms) (nvars : nat) | OErr (e : err).

Definition qmaxl (l : list Q) : Q := fold_left (fun a b => if Qle_bool a b then b else a) l 0.
Definition out (r : result model) (n : nat) : cout := match r with Ok m => OMatrix (kd m) (tm m) n | Err e => OErr e end.

Definition run_case (c : cin) : cout :=
  match c with
  | PVertexCover N edges A B => out (vc_to_qubo N edges A B) N
  | PNumberPartitioning S0 A => out (np_to_quso S0 A) (length S0)
  | PGraphPartitioning N edges all A B =>
      out (gp_to_quso N edges (match A with Some a => a | None => gp_default_A N all B end) B) N
  | PSetCover n V w lt M A B => out (sc_to_qubo n V w lt M A B) (sc_num_vars (length V) n M lt)
  | PBilp c0 S0 b A B => out (bilp_to_qubo c0 S0 b (match A with Some a => a | None => B * nQ (length c0) end) B) (length c0)
  | PJobSequencing L m lt M A B =>
      out (js_to_qubo L m lt M (match A with Some a => a | None => B * qmaxl L end) B) (js_num_vars (length L) m M lt)
  | PChain N ch mn mx pbc => out (asc_to_quso N ch mn mx pbc) N
  end.
Definition out_eqb (a b : cout) : bool :=
  match a, b with
  | OMatrix k t n, OMatrix k' t' n' => kind_eqb k k' && map_eqb t t' && Nat.eqb n n'
  | OErr e, OErr e' => err_eqb e e'
  | _, _ => false
  end.
