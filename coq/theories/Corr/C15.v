(* correspondence entry points for C15 *)
From QV.Model Require Import Base Matrix Extrema.
Open Scope Q_scope.

Inductive cin :=
| ApproxB (t : terms)                         (* approximate_pubo/qubo_extrema on a raw dict *)
| ApproxS (t : terms)                         (* approximate_puso/quso_extrema *)
| ApproxModel (spin : bool) (k : kind) (t : terms)   (* ... on the model object cls(t) *)
| TempDict (t : terms)                        (* anneal_temperature_range(dict, spin=True) *)
| TempModel (k : kind) (t upd : terms).       (* ... on cls(t) after m[k] = v for upd *)

Inductive cout := OPair (lo hi : Q) | OTemp (r : trange) | OErr (e : err).

Definition run_case (c : cin) : cout :=
  match c with
  | ApproxB t => let '(lo, hi) := approx_pubo t in OPair lo hi
  | ApproxS t => let '(lo, hi) := approx_puso t in OPair lo hi
  | ApproxModel spin k t =>
      match m_create k t with
      | Ok m => let '(lo, hi) := if spin then approx_puso (tm m) else approx_pubo (tm m) in OPair lo hi
      | Err e => OErr e
      end
  | TempDict t => OTemp (temp_range_spin t (key_vars t))
  | TempModel k t upd =>
      match bind (m_create k t) (fun m => m_update m upd) with
      | Ok m => OTemp (temp_range_spin (tm m) (vars_c m))
      | Err e => OErr e
      end
  end.

Definition trange_eqb (a b : trange) : bool :=
  match a, b with
  | TZero, TZero | TError, TError => true
  | TVals m M, TVals m' M' => Qeq_bool m m' && Qeq_bool M M'
  | _, _ => false
  end.
Definition out_eqb (a b : cout) : bool :=
  match a, b with
  | OPair l h, OPair l' h' => Qeq_bool l l' && Qeq_bool h h'
  | OTemp r, OTemp r' => trange_eqb r r'
  | OErr e, OErr e' => err_eqb e e'
  | _, _ => false
  end.
