(* correspondence entry points for C05 *)
From QV.Model Require Import Base Matrix Arith Expr Values.
Open Scope Q_scope.

Inductive cin :=
| Tree (e : expr)
| Value (fn : nat) (t : terms) (x : list (label * Q)).   (* fn: 0 pubo 1 qubo 2 puso 3 quso *)

Inductive cout := OModelOut (k : kind) (t : terms) | OErr (e : err) | OVal (v : Q).

Definition env_of (x : list (label * Q)) : env :=
  fun i => match find (fun p => Nat.eqb (fst p) i) x with Some p => snd p | None => 0 end.

Definition run_case (c : cin) : cout :=
  match c with
  | Tree e => match interp e with
              | Ok (OModel m) => OModelOut (kd m) (tm m)
              | Ok _ => OErr TypeError
              | Err e0 => OErr e0
              end
  | Value fn t x =>
      let e := env_of x in
      OVal (match fn with O => pubo_value e t | 1%nat => qubo_value e t | 2%nat => puso_value e t | _ => quso_value e t end)
  end.

Definition out_eqb (a b : cout) : bool :=
  match a, b with
  | OModelOut k t, OModelOut k' t' => kind_eqb k k' && map_eqb t t'
  | OErr e, OErr e' => err_eqb e e'
  | OVal v, OVal v' => Qeq_bool v v'
  | _, _ => false
  end.
