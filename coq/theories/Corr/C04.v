(* correspondence entry points for C04 *)
From QV.Model Require Import Base Matrix Arith Convert Reduce.
From QV.Proofs Require Import InvProofs.
Open Scope Q_scope.

Inductive cin :=
| Conv (fn : nat) (src : option kind) (t : terms)        (* 0 pubo_to_puso 1 puso_to_pubo 2 qubo_to_quso 3 quso_to_qubo *)
| Method (k : kind) (t : terms) (es : list edit) (mpx : option (list (label * nat))) (es2 : list edit) (meth : nat)
    (* object built from t, edited in place, optionally set_mapping / set_reverse_mapping, then 0 to_qubo 1 to_quso 2 to_pubo 3 to_puso *)
| ConvSol (k : kind) (t : terms) (mpx : option (list (label * nat))) (sol : list (nat * Z)) (flag : bool)
| ExportQ (lab : bool) (t : terms) | ExportH (lab : bool) (t : terms) | ExportJ (lab : bool) (t : terms)   (* lab: a labelled QUBO / QUSO object (the properties are inherited) *)
| ToMatrix (t : terms) (sym : bool)
| FromMatrix (es : list (nat * nat * Q)).

Inductive cout :=
| OModelOut (k : kind) (t : terms)
| OSol (l : list (label * Z))
| OTerms (t : terms)
| OMatrix (n : nat) (t : terms)
| OErr (e : err).

Definition with_src (src : option kind) (t : terms) (f : option kind -> terms -> result model) : result model :=
  match src with
  | Some k => bind (m_create k t) (fun m => f (Some k) (tm m))
  | None => f None t
  end.
Definition out_model (r : result model) : cout :=
  match r with Ok m => OModelOut (kd m) (tm m) | Err e => OErr e end.

(* set_mapping / set_reverse_mapping (Model/Matrix.v set_mapping) when the case renumbers the model *)
Definition with_mp (m : model) (mpx : option (list (label * nat))) : model :=
  match mpx with None => m | Some l => set_mapping m l end.

Definition list_max (l : list nat) : nat := fold_left Nat.max l 0%nat.

Definition run_case (c : cin) : cout :=
  match c with
  | Conv fn src t =>
      out_model (with_src src t (match fn with
                                 | 0%nat => pubo_to_puso | 1%nat => puso_to_pubo
                                 | 2%nat => qubo_to_quso | _ => quso_to_qubo end))
  | Method k t es mpx es2 meth =>
      (* edits, the user's numbering (if any), further edits (new variables take the next free integer), the conversion *)
      out_model (bind (bind (bind (m_create k t) (fun m0 => run_edits m0 es)) (fun m1 => run_edits (with_mp m1 mpx) es2)) (fun m =>
        match k, meth with
        | KQubo, 0%nat => qubo_to_qubo m | KQubo, 1%nat => qubo_to_quso_m m
        | KQubo, 2%nat => qubo_to_pubo m | KQubo, _ => qubo_to_puso_m m
        | KQuso, 0%nat => quso_to_qubo_m m | KQuso, 1%nat => quso_to_quso m
        | KQuso, 2%nat => quso_to_pubo_m m | KQuso, _ => quso_to_puso m
        (* PUBO / PCBO / PUSO / PCSO objects of degree <= 2: no reduction is required, the methods only relabel / convert *)
        | (KPubo | KPcbo), 0%nat => pubo_to_qubo m LDefault []
        | (KPubo | KPcbo), 1%nat => pubo_to_quso m LDefault []
        | (KPubo | KPcbo), 2%nat => pubo_to_pubo m None LDefault []
        | (KPubo | KPcbo), _ => pubo_to_puso_m m None LDefault []
        | (KPuso | KPcso), 0%nat => puso_to_qubo_m m LDefault []
        | (KPuso | KPcso), 1%nat => puso_to_quso_m m LDefault []
        | (KPuso | KPcso), 2%nat => puso_to_pubo_m m None LDefault []
        | (KPuso | KPcso), _ => puso_to_puso_m m None LDefault []
        | _, _ => Err TypeError
        end))
  | ConvSol k t mpx sol flag =>
      match bind (m_create k t) (fun m => convert_solution (is_spin k) (with_mp m mpx) sol flag) with
      | Ok l => OSol l | Err e => OErr e
      end
  | ExportQ lab t => match m_create (if lab then KQubo else KQuboM) t with Ok m => OTerms (export_Q (tm m)) | Err e => OErr e end
  | ExportH lab t => match m_create (if lab then KQuso else KQusoM) t with
                 | Ok m => OTerms (map (fun '(i, v) => ([i], v)) (export_h (tm m))) | Err e => OErr e end
  | ExportJ lab t => match m_create (if lab then KQuso else KQusoM) t with Ok m => OTerms (export_J (tm m)) | Err e => OErr e end
  | ToMatrix t sym =>
      match m_create KQuboM t with
      | Ok m => match qubo_to_matrix (tm m) sym with
                | Ok es => OMatrix (S (list_max (vars_c m))) (map (fun '(i, j, v) => ([i; j], v)) es)
                | Err e => OErr e
                end
      | Err e => OErr e
      end
  | FromMatrix es => out_model (matrix_to_qubo es)
  end.

Fixpoint sol_eqb (a b : list (label * Z)) : bool :=
  match a, b with
  | [], [] => true
  | (x, v) :: a', (y, w) :: b' => Nat.eqb x y && Z.eqb v w && sol_eqb a' b'
  | _, _ => false
  end.
Definition out_eqb (a b : cout) : bool :=
  match a, b with
  | OModelOut k t, OModelOut k' t' => kind_eqb k k' && map_eqb t t'
  | OSol l, OSol l' => sol_eqb l l'
  | OTerms t, OTerms t' => map_eqb t t'
  | OMatrix n t, OMatrix n' t' => Nat.eqb n n' && map_eqb t t'
  | OErr e, OErr e' => err_eqb e e'
  | _, _ => false
  end.
