(* correspondence entry points for C16: the numeric model at the substituted value, for each family *)
From QV.Model Require Import Base Matrix Arith Expr Extrema Sat PCBO Logic Convert PCSO Reduce.
From QV.Corr Require C01 C02 C03 C06.
Inductive cin := In02 (c : C02.cin) | In03 (c : C03.cin) | In06 (c : C06.cin) | In01 (c : C01.cin).
Inductive cout := Out02 (c : C02.cout) | Out01 (c : C01.cout).
Definition run_case (c : cin) : cout :=
  match c with
  | In02 x => Out02 (C02.run_case x)
  | In03 x => Out02 (C03.run_case x)
  | In06 x => Out02 (C06.run_case x)
  | In01 x => Out01 (C01.run_case x)
  end.
Definition out_eqb (a b : cout) : bool :=
  match a, b with
  | Out02 x, Out02 y => C02.out_eqb x y
  | Out01 x, Out01 y => C01.out_eqb x y
  | _, _ => false
  end.
