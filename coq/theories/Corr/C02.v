(* correspondence entry points for C02: sequences of comparison constraints on one PCBO *)
From QV.Model Require Import Base Matrix Arith Expr Extrema Sat PCBO.
Open Scope Q_scope.

Record call := { c_rel : rel; c_P : terms; c_lam : Q; c_log : bool; c_bounds : bounds }.
Record obs := { o_tm : terms; o_anc : nat; o_cons : list (rel * terms); o_warn : warn; o_vars : list label }.
Definition cin := (terms * list call)%type.
Definition cout := (list obs * option err)%type.

Definition rel_rank (r : rel) : nat :=
  match r with REq => 0 | RNe => 1 | RLt => 2 | RLe => 3 | RGt => 4 | RGe => 5 end%nat.
(* the implementation keeps one list per relation; group the recording order accordingly *)
Definition group_cons (l : list (rel * terms)) : list (rel * terms) :=
  flat_map (fun r => filter (fun p => rel_eqb r (fst p)) l) [REq; RNe; RLt; RLe; RGt; RGe].

Fixpoint run_calls (m : model) (cs : list call) : list obs * option err :=
  match cs with
  | [] => ([], None)
  | c :: cs' =>
      match add_constraint (c_rel c) m (c_P c) (c_lam c) (c_log c) (c_bounds c) with
      | Ok (m', w, _) =>
          let '(l, e) := run_calls m' cs' in
          ({| o_tm := tm m'; o_anc := anc m'; o_cons := group_cons (cons m'); o_warn := w; o_vars := vars_c m' |} :: l, e)
      | Err x => ([], Some x)
      end
  end.

Definition run_case (c : cin) : cout :=
  match m_create KPcbo (fst c) with
  | Ok m => run_calls m (snd c)
  | Err x => ([], Some x)
  end.

Definition warn_eqb (a b : warn) : bool :=
  match a, b with WNone, WNone | WUnsat, WUnsat | WAlways, WAlways => true | _, _ => false end.
Fixpoint cons_eqb (a b : list (rel * terms)) : bool :=
  match a, b with
  | [], [] => true
  | (r, P) :: a', (r', P') :: b' => rel_eqb r r' && map_eqb P P' && cons_eqb a' b'
  | _, _ => false
  end.
Fixpoint sorted_ins (x : label) (l : list label) : list label :=
  match l with [] => [x] | y :: l' => if (x <=? y)%nat then x :: l else y :: sorted_ins x l' end.
Definition labels_eqb (a b : list label) : bool := key_eqb (fold_right sorted_ins [] a) (fold_right sorted_ins [] b).
Definition obs_eqb (a b : obs) : bool :=
  map_eqb (o_tm a) (o_tm b) && Nat.eqb (o_anc a) (o_anc b) && cons_eqb (o_cons a) (o_cons b)
  && warn_eqb (o_warn a) (o_warn b) && labels_eqb (o_vars a) (o_vars b).
Fixpoint obsl_eqb (a b : list obs) : bool :=
  match a, b with [], [] => true | x :: a', y :: b' => obs_eqb x y && obsl_eqb a' b' | _, _ => false end.
Definition out_eqb (a b : cout) : bool :=
  obsl_eqb (fst a) (fst b) &&
  match snd a, snd b with None, None => true | Some x, Some y => err_eqb x y | _, _ => false end.

(* branch tag of a single call, for coverage accounting *)
Definition tag_of (c : cin) : list nat :=
  match m_create KPcbo (fst c) with
  | Ok m =>
      (fix go (m : model) (cs : list call) : list nat :=
         match cs with
         | [] => []
         | c0 :: cs' =>
             match add_constraint (c_rel c0) m (c_P c0) (c_lam c0) (c_log c0) (c_bounds c0) with
             | Ok (m', _, t) =>
                 (match t with
                  | TSpecialEqAnd => 0 | TEqAlways => 1 | TEqUnsatPos => 2 | TEqUnsatNeg => 3 | TEqMinZero => 4
                  | TEqMaxZero => 5 | TEqSquare => 6 | TLeAtMostOne => 7 | TLeUnarySlack => 8 | TLeOr => 9
                  | TLeImplies => 10 | TLeUnsat => 11 | TLeAlways => 12 | TLeSlack => 13 | TLtUnsat => 14
                  | TLtAlways => 15 | TLtReduce => 16 | TNeUnsat => 17 | TNeAlways => 18 | TNeGt => 19 | TNeLt => 20
                  | TNeGadget => 21 | TLamZero => 22
                  end)%nat :: go m' cs'
             | Err _ => []
             end
         end) m (snd c)
  | Err _ => []
  end.
