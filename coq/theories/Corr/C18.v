(* correspondence entry points for C18 *)
From QV.Model Require Import Base Matrix Arith Extrema SubNorm.
Open Scope Q_scope.

Inductive cin :=
| SubValue (k : kind) (t : terms) (vs : vals)
| SubGraph (k : kind) (t : terms) (nodes : list label) (conn : vals)
| Normalize (k : kind) (t : terms) (value : Q)
| NormalizeMethod (k : kind) (t : terms) (value : Q).
Inductive cout := OModelOut (k : kind) (t : terms) | OErr (e : err).

(* objects are built with cls(t); a plain dict is KDict and is used as given *)
Definition src (k : kind) (t : terms) : result terms :=
  match k with KDict => Ok t | _ => bind (m_create k t) (fun m => Ok (tm m)) end.
Definition out_model (r : result model) : cout := match r with Ok m => OModelOut (kd m) (tm m) | Err e => OErr e end.

Definition run_case (c : cin) : cout :=
  match c with
  | SubValue k t vs => out_model (bind (src k t) (subvalue k vs))
  | SubGraph k t nodes conn => out_model (bind (src k t) (subgraph k nodes conn))
  | Normalize k t value => out_model (bind (src k t) (fun G => normalize k G value))
  | NormalizeMethod k t value => out_model (bind (m_create k t) (fun m => normalize_method m value))
  end.
Definition out_eqb (a b : cout) : bool :=
  match a, b with
  | OModelOut k t, OModelOut k' t' => kind_eqb k k' && map_eqb t t'
  | OErr e, OErr e' => err_eqb e e'
  | _, _ => false
  end.
