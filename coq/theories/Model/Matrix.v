(* Model objects: term dictionary plus the cached bookkeeping of
   PUBOMatrix (degree, variables, num_binary_variables) and BO (mapping,
   reverse_mapping, next label), plus the PCBO/PCSO extras (ancilla counter,
   recorded constraints) and the name.  Follows
   qubovert/utils/_dict_arithmetic.py, _pubomatrix.py, _bo_parentclass.py. *)
From QV.Model Require Import Base.
Open Scope Q_scope.

Inductive rel := REq | RNe | RLt | RLe | RGt | RGe.
Definition rel_eqb (a b : rel) : bool :=
  match a, b with
  | REq, REq | RNe, RNe | RLt, RLt | RLe, RLe | RGt, RGt | RGe, RGe => true
  | _, _ => false
  end.

Record model := {
  kd : kind;
  tm : terms;
  deg_c : option nat;            (* None = -inf *)
  vars_c : list label;           (* _variables, as a duplicate-free list *)
  mp : list (label * nat);       (* _mapping, insertion ordered; _reverse_mapping is its inverse *)
  next_label : nat;
  anc : nat;                     (* PCBO/PCSO _ancilla *)
  cons : list (rel * terms);     (* recorded constraints, in recording order *)
  nm : option nat                (* name *)
}.

Definition empty_model (k : kind) : model :=
  {| kd := k; tm := []; deg_c := None; vars_c := []; mp := []; next_label := 0%nat;
     anc := 0%nat; cons := []; nm := None |}.

Definition num_vars (m : model) : nat := length (vars_c m).

Fixpoint mem (x : label) (l : list label) : bool :=
  match l with [] => false | y :: l' => (x =? y)%nat || mem x l' end.
Fixpoint mp_get (x : label) (m : list (label * nat)) : option nat :=
  match m with [] => None | (y, n) :: m' => if (x =? y)%nat then Some n else mp_get x m' end.
Fixpoint rmp_get (n : nat) (m : list (label * nat)) : option label :=
  match m with [] => None | (y, n') :: m' => if (n =? n')%nat then Some y else rmp_get n m' end.

Definition add_vars (vs : list label) (k : key) : list label :=
  fold_left (fun vs i => if mem i vs then vs else vs ++ [i]) k vs.

Definition max_deg (d : option nat) (n : nat) : option nat :=
  match d with None => Some n | Some d' => Some (Nat.max d' n) end.

(* BO.__setitem__ registration loop (after the D1 repair: only labels that the
   matrix layer holds as variables are registered) *)
Definition register (vs : list label) (raw : key) (mp0 : list (label * nat)) (nl : nat)
  : list (label * nat) * nat :=
  fold_left (fun '(mpx, n) i =>
     match mp_get i mpx with
     | Some _ => (mpx, n)
     | None => if mem i vs then (mpx ++ [(i, n)], S n) else (mpx, n)
     end) raw (mp0, nl).

(* self[key] = value *)
Definition m_setitem (m : model) (k : key) (v : Q) : result model :=
  bind (squash (kd m) k) (fun k' =>
    let nz := negb (qzero v) in
    let is_m := negb (kind_eqb (kd m) KDict) in
    let deg' := if nz && is_m then max_deg (deg_c m) (length k') else deg_c m in
    let vars' := if nz && is_m then add_vars (vars_c m) k' else vars_c m in
    let '(mp', nl') := if is_labelled (kd m) then register vars' k (mp m) (next_label m)
                       else (mp m, next_label m) in
    Ok {| kd := kd m; tm := set_sq (tm m) k' v; deg_c := deg'; vars_c := vars';
          mp := mp'; next_label := nl'; anc := anc m; cons := cons m; nm := nm m |}).

Definition m_getitem (m : model) (k : key) : result Q := getitem (kd m) (tm m) k.

(* self[key] += value : __getitem__ then __setitem__ *)
Definition m_additem (m : model) (k : key) (v : Q) : result model :=
  bind (m_getitem m k) (fun old => m_setitem m k (old + v)).

Fixpoint m_addall (m : model) (o : terms) : result model :=
  match o with
  | [] => Ok m
  | (k, v) :: o' => bind (m_additem m k v) (fun m' => m_addall m' o')
  end.

(* cls(pairs): constructor from key/value pairs; name is reset to None *)
Definition m_create (k : kind) (o : terms) : result model := m_addall (empty_model k) o.

(* update: self[k] = v for each pair *)
Fixpoint m_update (m : model) (o : terms) : result model :=
  match o with
  | [] => Ok m
  | (k, v) :: o' => bind (m_setitem m k v) (fun m' => m_update m' o')
  end.

(* copy(): cls(self); PCBO/PCSO carry constraints and the ancilla counter over *)
Definition m_copy (m : model) : result model :=
  bind (m_create (kd m) (tm m)) (fun c =>
    Ok {| kd := kd c; tm := tm c; deg_c := deg_c c; vars_c := vars_c c; mp := mp c;
          next_label := next_label c; anc := anc m; cons := cons m; nm := None |}).

(* refresh(): d = self.copy(); dict.clear(self); self.__init__(d) -- name is reset *)
Definition m_refresh (m : model) : result model := m_copy m.

(* clear(): everything back to the initial state (name, constraints, counter included) *)
Definition m_clear (m : model) : model := empty_model (kd m).

Definition with_tm (m : model) (t : terms) : model :=
  {| kd := kd m; tm := t; deg_c := deg_c m; vars_c := vars_c m; mp := mp m;
     next_label := next_label m; anc := anc m; cons := cons m; nm := nm m |}.

(* BO.set_mapping / BO.set_reverse_mapping: the mapping is replaced by the one handed over (as (label, integer) pairs in the order
   of the caller's dictionary); the label counter and everything else are left as they are *)
Definition set_mapping (m : model) (mpx : list (label * nat)) : model :=
  {| kd := kd m; tm := tm m; deg_c := deg_c m; vars_c := vars_c m; mp := mpx; next_label := next_label m;
     anc := anc m; cons := cons m; nm := nm m |}.
