(* qubovert/utils/_values.py as the code computes it *)
From QV.Model Require Import Base.
Open Scope Q_scope.

Definition truthy (v : Q) : bool := negb (qzero v).

(* sum(v for k, v in P.items() if all(x[i] for i in k)) *)
Definition pubo_value (x : env) (P : terms) : Q :=
  fold_right (fun '(k, v) acc => (if forallb (fun i => truthy (x i)) k then v else 0) + acc) 0 P.

(* keys longer than two labels are ignored *)
Definition qubo_value (x : env) (P : terms) : Q :=
  fold_right (fun '(k, v) acc =>
    (match k with
     | [] => v
     | [i] => if truthy (x i) then v else 0
     | [i; j] => if truthy (x i) && truthy (x j) then v else 0
     | _ => 0
     end) + acc) 0 P.

(* v * (-1) ** ([z[i] for i in k].count(-1) % 2) *)
Definition count_m1 (z : env) (k : key) : nat :=
  length (filter (fun i => Qeq_bool (z i) (-(1))) k).
Definition puso_value (z : env) (H : terms) : Q :=
  fold_right (fun '(k, v) acc => (if Nat.even (count_m1 z k) then v else - v) + acc) 0 H.

(* v * (z[k[0]] if k else 1) * (z[k[1]] if len(k) > 1 else 1) : reads the first two labels only *)
Definition quso_value (z : env) (L : terms) : Q :=
  fold_right (fun '(k, v) acc =>
    (match k with
     | [] => v
     | [i] => v * z i
     | i :: j :: _ => v * z i * z j
     end) + acc) 0 L.
