(* Base layer of the qubovert model: keys, ordered dictionaries with Python
   semantics, squashing of keys, evaluation of term lists.
   Definitions only; lemmas live in Proofs/. *)
From Coq Require Export List QArith Qabs Bool Arith ZArith.
Export ListNotations.
Open Scope Q_scope.

Definition label := nat.
Definition key := list label.
Definition terms := list (key * Q).
Definition env := label -> Q.

Inductive err := KeyError | ValueError | TypeError | IndexError | RuntimeError | OutOfFuel | ZeroDivisionError.
Inductive result (A : Type) := Ok (a : A) | Err (e : err).
Arguments Ok {A} a.
Arguments Err {A} e.

Definition err_eqb (a b : err) : bool :=
  match a, b with
  | KeyError, KeyError | ValueError, ValueError | TypeError, TypeError
  | IndexError, IndexError | RuntimeError, RuntimeError | OutOfFuel, OutOfFuel
  | ZeroDivisionError, ZeroDivisionError => true
  | _, _ => false
  end.

Definition bind {A B} (r : result A) (f : A -> result B) : result B :=
  match r with Ok a => f a | Err e => Err e end.

Fixpoint key_eqb (a b : key) : bool :=
  match a, b with
  | [], [] => true
  | x :: a', y :: b' => Nat.eqb x y && key_eqb a' b'
  | _, _ => false
  end.

(* ---- insertion-ordered dictionary with Python semantics ---- *)
Section Dict.
  Context {V : Type}.
  Fixpoint lookup (k : key) (d : list (key * V)) : option V :=
    match d with
    | [] => None
    | (k', v) :: d' => if key_eqb k k' then Some v else lookup k d'
    end.
  (* d[k] = v : an existing key keeps its position *)
  Fixpoint set_ (k : key) (v : V) (d : list (key * V)) : list (key * V) :=
    match d with
    | [] => [(k, v)]
    | (k', v') :: d' => if key_eqb k k' then (k, v) :: d' else (k', v') :: set_ k v d'
    end.
  (* d.pop(k, default) *)
  Fixpoint remove_ (k : key) (d : list (key * V)) : list (key * V) :=
    match d with
    | [] => []
    | (k', v') :: d' => if key_eqb k k' then d' else (k', v') :: remove_ k d'
    end.
End Dict.

(* ---- squashing ---- *)
(* sorted(set(key)) : insertion into a sorted duplicate-free list *)
Fixpoint ins (x : label) (k : key) : key :=
  match k with
  | [] => [x]
  | y :: k' => if (x <? y)%nat then x :: y :: k'
               else if (x =? y)%nat then y :: k' else y :: ins x k'
  end.
Definition squashB (k : key) : key := fold_right ins [] k.

(* sorted(x for x in set(key) if key.count(x) % 2) : toggling insertion *)
Fixpoint tog (x : label) (k : key) : key :=
  match k with
  | [] => [x]
  | y :: k' => if (x <? y)%nat then x :: y :: k'
               else if (x =? y)%nat then k' else y :: tog x k'
  end.
Definition squashS (k : key) : key := fold_right tog [] k.

(* ---- evaluation ---- *)
Fixpoint mon (e : env) (k : key) : Q :=
  match k with [] => 1 | i :: k' => e i * mon e k' end.
Fixpoint eval (e : env) (t : terms) : Q :=
  match t with [] => 0 | (k, v) :: t' => v * mon e k + eval e t' end.

Definition boolean_env (e : env) : Prop := forall i, e i == 0 \/ e i == 1.
Definition spin_env (e : env) : Prop := forall i, e i == 1 \/ e i == -(1).

(* the fixed correspondence boolean 0 <-> spin 1, boolean 1 <-> spin -1 *)
Definition b2s (e : env) : env := fun i => 1 - 2 * e i.
Definition s2b (e : env) : env := fun i => (1 - e i) / 2.

(* ---- the ten model kinds (plus DictArithmetic) ---- *)
Inductive kind := KDict | KQuboM | KQusoM | KPuboM | KPusoM
                | KQubo | KQuso | KPubo | KPuso | KPcbo | KPcso.

Definition kind_eqb (a b : kind) : bool :=
  match a, b with
  | KDict, KDict | KQuboM, KQuboM | KQusoM, KQusoM | KPuboM, KPuboM | KPusoM, KPusoM
  | KQubo, KQubo | KQuso, KQuso | KPubo, KPubo | KPuso, KPuso | KPcbo, KPcbo | KPcso, KPcso => true
  | _, _ => false
  end.

Definition is_spin (kd : kind) : bool :=
  match kd with KQusoM | KPusoM | KQuso | KPuso | KPcso => true | _ => false end.
Definition is_quadratic (kd : kind) : bool :=
  match kd with KQuboM | KQusoM | KQubo | KQuso => true | _ => false end.
Definition is_labelled (kd : kind) : bool :=
  match kd with KQubo | KQuso | KPubo | KPuso | KPcbo | KPcso => true | _ => false end.

(* squash_key of each class; the degree-2 classes raise KeyError *)
Definition squash (kd : kind) (k : key) : result key :=
  match kd with
  | KDict => Ok k
  | _ =>
    let k' := if is_spin kd then squashS k else squashB k in
    if is_quadratic kd && (2 <? length k')%nat then Err KeyError else Ok k'
  end.

(* ---- item access on the term dictionary ---- *)
Definition qzero (v : Q) : bool := Qeq_bool v 0.

Definition get_sq (d : terms) (k : key) : Q :=
  match lookup k d with Some v => v | None => 0 end.
(* DictArithmetic.__setitem__ on an already squashed key *)
Definition set_sq (d : terms) (k : key) (v : Q) : terms :=
  if qzero v then remove_ k d else set_ k (Qred v) d.

Definition getitem (kd : kind) (d : terms) (k : key) : result Q :=
  bind (squash kd k) (fun k' => Ok (get_sq d k')).
Definition setitem (kd : kind) (d : terms) (k : key) (v : Q) : result terms :=
  bind (squash kd k) (fun k' => Ok (set_sq d k' v)).
(* self[k] += v *)
Definition additem (kd : kind) (d : terms) (k : key) (v : Q) : result terms :=
  bind (squash kd k) (fun k' => Ok (set_sq d k' (get_sq d k' + v))).

(* boolean / spin versions without the error monad, for the unbounded-degree kinds *)
Definition addB (d : terms) (k : key) (v : Q) : terms :=
  let k' := squashB k in set_sq d k' (get_sq d k' + v).
Definition addS (d : terms) (k : key) (v : Q) : terms :=
  let k' := squashS k in set_sq d k' (get_sq d k' + v).
Definition iaddB (d o : terms) : terms := fold_left (fun d '(k, v) => addB d k v) o d.
Definition iaddS (d o : terms) : terms := fold_left (fun d '(k, v) => addS d k v) o d.

(* order-insensitive comparison of term dictionaries *)
Definition map_eqb (a b : terms) : bool :=
  forallb (fun '(k, v) => Qeq_bool v (get_sq b k)) a &&
  forallb (fun '(k, v) => Qeq_bool v (get_sq a k)) b.
Fixpoint terms_eqb (a b : terms) : bool :=
  match a, b with
  | [], [] => true
  | (k, v) :: a', (k', v') :: b' => key_eqb k k' && Qeq_bool v v' && terms_eqb a' b'
  | _, _ => false
  end.

(* index list of the cases on which model and implementation disagree *)
Fixpoint failing {A B} (run : A -> B) (eqb : B -> B -> bool) (cs : list (A * B)) (i : nat) : list nat :=
  match cs with
  | [] => []
  | (a, b) :: cs' => if eqb (run a) b then failing run eqb cs' (S i)
                     else i :: failing run eqb cs' (S i)
  end.

Definition res_eqb {A} (eqb : A -> A -> bool) (a b : result A) : bool :=
  match a, b with
  | Ok x, Ok y => eqb x y
  | Err e, Err f => err_eqb e f
  | _, _ => false
  end.
