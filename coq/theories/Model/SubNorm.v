(* qubovert/utils/_subgraph.py (subvalue, subgraph) and _normalize.py *)
From QV.Model Require Import Base Matrix Arith Extrema.
From Coq Require Import Qminmax.
Open Scope Q_scope.

Definition vals := list (label * Q).
Fixpoint vget (i : label) (vs : vals) : option Q :=
  match vs with [] => None | (j, v) :: vs' => if Nat.eqb i j then Some v else vget i vs' end.
Definition in_dom (vs : vals) (i : label) : bool := match vget i vs with Some _ => true | None => false end.

Definition prod_vals (vs : vals) (dflt : Q) (k : key) : Q :=
  fold_right (fun i acc => (match vget i vs with Some v => v | None => dflt end) * acc) 1 k.

(* value = v * prod(...); value += D.get(key, 0); D[key] = value  (or pop when zero) *)
Fixpoint sub_loop (m : model) (G : terms) (keep : label -> bool) (vs : vals) (dflt : Q) (skip_const : bool)
  : result model :=
  match G with
  | [] => Ok m
  | (k, v) :: G' =>
      if skip_const && match k with [] => true | _ => false end then sub_loop m G' keep vs dflt skip_const
      else
        let key := filter keep k in
        let c := v * prod_vals vs dflt (filter (fun i => negb (keep i)) k) in
        bind (m_additem m key c) (fun m' => sub_loop m' G' keep vs dflt skip_const)
  end.

(* subvalue(values, G): the result has G's type (a plain dict stays a plain dict: KDict) *)
Definition subvalue (kd0 : kind) (values : vals) (G : terms) : result model :=
  sub_loop (empty_model kd0) G (fun i => negb (in_dom values i)) values 0 false.

(* subgraph(G, nodes, connections) *)
Definition subgraph (kd0 : kind) (nodes : list label) (conn : vals) (G : terms) : result model :=
  sub_loop (empty_model kd0) G (fun i => mem i nodes) conn 0 true.

(* normalize(D, value): ValueError on an empty D (max of an empty sequence) *)
Definition max_abs (D : terms) : option Q := qmax_list (map (fun '(_, v) => Qabs v) D).
Definition normalize (kd0 : kind) (D : terms) (value : Q) : result model :=
  match max_abs D with
  | None => Err ValueError
  | Some M => if qzero M then Err ZeroDivisionError
              else m_update (empty_model kd0) (map (fun '(k, v) => (k, value / M * v)) D)
  end.
(* the method: in place, a no-op on an empty model *)
Definition normalize_method (m : model) (value : Q) : result model :=
  match max_abs (tm m) with
  | None => Ok m
  | Some M => if qzero M then Err ZeroDivisionError
              else m_scale m (fun v => v * (value / M))     (* for k in self: self[k] *= mult *)
  end.
