(* qubovert/_pubo.py: PUBO._reduce_degree, to_pubo / to_qubo and the derived to_quso / to_puso;
   qubovert/_puso.py: _to_puso, _create_pubo and the four to_* methods. *)
From QV.Model Require Import Base Matrix Convert.
Open Scope Q_scope.

(* pair frequencies: dict (x, y) -> count *)
Definition pfreq := list (key * nat).
Definition pf_get (f : pfreq) (x y : nat) : nat := match lookup [x; y] f with Some n => n | None => O end.
Definition pf_inc (f : pfreq) (x y : nat) : pfreq := set_ [x; y] (S (pf_get f x y)) f.

(* (key[i], key[j]) for i < j in lexicographic order *)
Fixpoint all_pairs (k : key) : list (nat * nat) :=
  match k with [] => [] | x :: k' => map (fun y => (x, y)) k' ++ all_pairs k' end.

Definition reductions := list (key * nat).
Inductive choice := PrevUsed (x y z : nat) | Fresh (x y : nat) | NoPair.

(* the double loop choosing the pair to reduce *)
Fixpoint scan (ps : list (nat * nat)) (red : reductions) (hint : list key) (f : pfreq)
              (best : option (nat * (nat * nat))) : choice :=
  match ps with
  | [] => match best with Some (_, (x, y)) => Fresh x y | None => NoPair end
  | (x, y) :: ps' =>
      match lookup [x; y] red with
      | Some z => PrevUsed x y z
      | None =>
          if existsb (key_eqb [x; y]) hint then Fresh x y
          else
            let fr := pf_get f x y in
            let best' := match best with
                         | None => Some (fr, (x, y))
                         | Some (b, _) => if (b <? fr)%nat then Some (fr, (x, y)) else best
                         end in
            scan ps' red hint f best'
      end
  end.

(* remove x and y from the sorted key and insert z in sorted position *)
Fixpoint ins_sorted (z : nat) (k : key) : key :=
  match k with
  | [] => [z]
  | i :: k' => if (z <? i)%nat then z :: i :: k' else i :: ins_sorted z k'
  end.
Definition replace_pair (k : key) (x y z : nat) : key :=
  ins_sorted z (filter (fun i => negb (Nat.eqb i x || Nat.eqb i y)) k).

(* D += PCBO().add_constraint_eq_AND(z, x, y, lam=l): nothing when l is falsy *)
Definition gadget (z x y : nat) (l : Q) : terms :=
  if qzero l then [] else [([z], 3 * l); ([x; y], l); ([x; z], -(2) * l); ([y; z], -(2) * l)].

Record rstate := { rD : model; rRed : reductions; rF : pfreq; rAnc : nat }.

Definition with_rD (st : rstate) (D : model) : rstate := {| rD := D; rRed := rRed st; rF := rF st; rAnc := rAnc st |}.

Fixpoint reduce_term (fuel : nat) (deg : nat) (lamv : Q) (hint : list key) (k : key) (st : rstate)
  : result (key * rstate) :=
  if (length k <=? deg)%nat then Ok (k, st) else
  match fuel with
  | O => Err OutOfFuel
  | S fuel' =>
      match scan (all_pairs k) (rRed st) hint (rF st) None with
      | NoPair => Err OutOfFuel
      | PrevUsed x y z =>
          bind (m_addall (rD st) (gadget z x y lamv)) (fun D' =>
          reduce_term fuel' deg lamv hint (replace_pair k x y z) (with_rD st D'))
      | Fresh x y =>
          let z := rAnc st in
          bind (m_addall (rD st) (gadget z x y lamv)) (fun D' =>
          reduce_term fuel' deg lamv hint (replace_pair k x y z)
            {| rD := D'; rRed := set_ [x; y] z (rRed st); rF := pf_inc (pf_inc (rF st) x z) y z; rAnc := S z |})
      end
  end.

(* penalty settings *)
Inductive lam_spec := LDefault | LConst (c : Q) | LFun (n : nat).
Definition default_lam (v : Q) : Q := 1 + Qabs v.
Definition lam_fun (l : lam_spec) (v : Q) : Q :=
  match l with
  | LDefault => default_lam v
  | LConst c => c
  | LFun 0 => 2 * Qabs v + (1 # 2)
  | LFun 1 => Qabs v
  | LFun _ => 1
  end.

Fixpoint sort_key (k : key) : key := match k with [] => [] | x :: k' => ins_sorted x (sort_key k') end.

(* mapped_self: {tuple(sorted(mapping[i] for i in k)): summed value}, in first-occurrence order *)
Definition mapped_self (mpx : list (label * nat)) (t : terms) : result terms :=
  bind (relabel_terms mpx t) (fun t' =>
    Ok (fold_left (fun acc '(k, v) => let k' := sort_key k in set_ k' (get_sq acc k' + v) acc) t' [])).
Definition init_freq (mpx : list (label * nat)) (t : terms) : result pfreq :=
  bind (relabel_terms mpx t) (fun t' =>
    Ok (fold_left (fun f '(k, _) => fold_left (fun f '(x, y) => pf_inc f x y) (all_pairs (sort_key k)) f) t' [])).
(* pairs hint: sorted mapped pair, or () when a label is unknown *)
Definition map_hint (mpx : list (label * nat)) (pairs : list key) : list key :=
  map (fun p => match relabel_key mpx p with Ok p' => sort_key p' | Err _ => [] end) pairs.

(* _reduce_degree(D, deg, lam, pairs) on a labelled boolean model m; out = kind of D *)
Definition reduce_degree (m : model) (out : kind) (deg : option nat) (l : lam_spec) (pairs : list key) : result model :=
  if match deg with Some d => (d <? 2)%nat | None => false end then Err ValueError else
  let d := match deg with Some d => d | None => match deg_c m with Some d => d | None => 0%nat end end in
  bind (mapped_self (mp m) (tm m)) (fun ms =>
  bind (init_freq (mp m) (tm m)) (fun f0 =>
  let hint := map_hint (mp m) pairs in
  let st0 := {| rD := empty_model out; rRed := []; rF := f0; rAnc := num_vars m |} in
  bind (fold_left (fun acc '(k, v) =>
          bind acc (fun st =>
          bind (reduce_term (length k) d (lam_fun l v) hint k st) (fun '(k', st') =>
          bind (m_additem (rD st') k' v) (fun D' => Ok (with_rD st' D')))))
        ms (Ok st0)) (fun st => Ok (rD st)))).

(* ---- the to_* methods ---- *)
Definition pubo_to_pubo (m : model) deg l pairs := reduce_degree m KPuboM deg l pairs.
Definition pubo_to_qubo (m : model) l pairs := reduce_degree m KQuboM (Some 2%nat) l pairs.
Definition pubo_to_quso (m : model) l pairs := bind (pubo_to_qubo m l pairs) (fun Q => qubo_to_quso (Some KQuboM) (tm Q)).
Definition pubo_to_puso_m (m : model) deg l pairs := bind (pubo_to_pubo m deg l pairs) (fun P => pubo_to_puso (Some KPuboM) (tm P)).

(* PUSO._create_pubo: boolean form with the labelling, variables and count of the spin model *)
Definition create_pubo (m : model) : result model :=
  bind (puso_to_pubo (Some (kd m)) (tm m)) (fun P =>
    Ok {| kd := KPubo; tm := tm P; deg_c := deg_c P; vars_c := vars_c m; mp := mp m; next_label := next_label P;
          anc := 0%nat; cons := []; nm := None |}).
Definition puso_to_puso_relabel (m : model) := to_matrix KPusoM m.       (* _to_puso *)
Definition deg_le (d : option nat) (n : nat) : bool := match d with None => true | Some x => (x <=? n)%nat end.
Definition puso_to_pubo_m (m : model) deg l pairs := bind (create_pubo m) (fun P => pubo_to_pubo P deg l pairs).
Definition puso_to_qubo_m (m : model) l pairs := bind (create_pubo m) (fun P => pubo_to_qubo P l pairs).
Definition puso_to_puso_m (m : model) (deg : option nat) l pairs :=
  match deg with
  | None => puso_to_puso_relabel m
  | Some d => if deg_le (deg_c m) d then puso_to_puso_relabel m
              else bind (create_pubo m) (fun P => pubo_to_puso_m P deg l pairs)
  end.
Definition puso_to_quso_m (m : model) l pairs :=
  if deg_le (deg_c m) 2 then bind (puso_to_puso_relabel m) (fun H => m_create KQusoM (tm H))
  else bind (puso_to_qubo_m m l pairs) (fun Q => qubo_to_quso (Some KQuboM) (tm Q)).
