(* qubovert/_pcbo.py: the six comparison-constraint methods with every branch,
   the sixteen logic methods, ancilla naming, is_solution_valid,
   remove_ancilla_from_solution.  Polynomials are built through the expression
   interpreter of Model/Expr.v exactly as the Python source writes them, so that
   term order (hence label registration order) follows the code. *)
From QV.Model Require Import Base Matrix Arith Expr Extrema Sat.
Open Scope Q_scope.

Inductive warn := WNone | WUnsat | WAlways.
Definition bounds := (option Q * option Q)%type.

(* '__a%d' % k  is coded as label 100 + k *)
Definition anc_label (k : nat) : label := (100 + k)%nat.
Definition is_anc_label (l : label) : bool := (100 <=? l)%nat && (l <? 200)%nat.

Definition ev (e : expr) : result model :=
  match interp e with Ok (OModel m) => Ok m | Ok _ => Err TypeError | Err x => Err x end.
(* an existing polynomial as an expression leaf *)
Definition EM (m : model) : expr := EModel (kd m) (tm m).
Definition EL (l : label) : expr := EModel KPubo [([l], 1)].          (* BUFFER(label) *)

Definition with_anc (m : model) (a : nat) : model :=
  {| kd := kd m; tm := tm m; deg_c := deg_c m; vars_c := vars_c m; mp := mp m; next_label := next_label m;
     anc := a; cons := cons m; nm := nm m |}.
Definition with_cons (m : model) (c : list (rel * terms)) : model :=
  {| kd := kd m; tm := tm m; deg_c := deg_c m; vars_c := vars_c m; mp := mp m; next_label := next_label m;
     anc := anc m; cons := c; nm := nm m |}.

Definition append_constraint (m : model) (r : rel) (P : terms) : model := with_cons m (cons m ++ [(r, P)]).
(* _pop_constraint(key): drop the last recorded constraint of that relation *)
Fixpoint pop_last (r : rel) (l : list (rel * terms)) : list (rel * terms) :=
  match l with
  | [] => []
  | (r', P) :: l' => if rel_eqb r r' && negb (existsb (fun p => rel_eqb r (fst p)) l') then l' else (r', P) :: pop_last r l'
  end.
Definition pop_constraint (m : model) (r : rel) : model := with_cons m (pop_last r (cons m)).

Definition get_bounds (P : terms) (b : bounds) : Q * Q :=
  let '(lo, hi) := approx_pubo P in
  match b with
  | (None, None) => (lo, hi)
  | (None, Some h) => (lo, h)
  | (Some l, None) => (l, hi)
  | (Some l, Some h) => (l, h)
  end.

Definition qeq0 (v : Q) : bool := Qeq_bool v 0.
Definition qlt0 (v : Q) : bool := match v ?= 0 with Lt => true | _ => false end.
Definition qgt0 (v : Q) : bool := match v ?= 0 with Gt => true | _ => false end.

(* self += X   for a model X *)
Definition iadd_m (m X : model) : result model := m_iadd m (OModel X).
Definition isub_m (m X : model) : result model := m_isub m (OModel X).

(* lam * P   (P.__rmul__) *)
Definition lamP (lam : Q) (P : model) : expr := EBin false OpMul (EScalar lam) (EM P).

(* the branch taken, for coverage accounting *)
Inductive tag := TSpecialEqAnd | TEqAlways | TEqUnsatPos | TEqUnsatNeg | TEqMinZero | TEqMaxZero | TEqSquare
               | TLeAtMostOne | TLeUnarySlack | TLeOr | TLeImplies | TLeUnsat | TLeAlways | TLeSlack
               | TLtUnsat | TLtAlways | TLtReduce | TNeUnsat | TNeAlways | TNeGt | TNeLt | TNeGadget | TLamZero.

(* eq_zero without the special-form test: the part after `_get_bounds` *)
Definition eq_zero_core (m : model) (P : model) (lam : Q) (b : bounds) : result (model * warn * tag) :=
  let '(lo, hi) := get_bounds (tm P) b in
  if qeq0 lo && qeq0 hi then Ok (m, WAlways, TEqAlways)
  else if qgt0 lo then bind (ev (lamP lam P)) (fun X => bind (iadd_m m X) (fun m' => Ok (m', WUnsat, TEqUnsatPos)))
  else if qlt0 hi then bind (ev (lamP lam P)) (fun X => bind (isub_m m X) (fun m' => Ok (m', WUnsat, TEqUnsatNeg)))
  else if qeq0 lo then bind (ev (lamP lam P)) (fun X => bind (iadd_m m X) (fun m' => Ok (m', WNone, TEqMinZero)))
  else if qeq0 hi then bind (ev (lamP lam P)) (fun X => bind (isub_m m X) (fun m' => Ok (m', WNone, TEqMaxZero)))
  else bind (ev (EBin false OpMul (lamP lam P) (EM P))) (fun X => bind (iadd_m m X) (fun m' => Ok (m', WNone, TEqSquare))).

(* PCBO().add_constraint_eq_AND(a, b, c, lam): 3a + bc - 2a(b + c), bounds (0, 3) *)
Definition and_gadget_expr (a b c : expr) : expr :=
  EBin false OpSub
    (EBin false OpAdd (EBin false OpMul (EScalar 3) a) (EBin false OpMul b c))
    (EBin false OpMul (EBin false OpMul (EScalar 2) a) (EBin false OpAdd b c)).
(* b = 1; b *= BUFFER(v) *)
Definition one_times (v : expr) : expr := EBin true OpMul (EScalar 1) v.

Definition empty_pcbo : model := empty_model KPcbo.
Definition as_pubo (P : terms) : result model := m_create KPubo P.

(* _special_constraints_eq_zero *)
Definition special_eq (m : model) (P : model) (lam : Q) : result (option model) :=
  match tm P with
  | [(k0, v0); (k1, v1)] =>
      if qeq0 (get_sq (tm P) []) && Nat.eqb (num_vars P) 3 && Qeq_bool v0 (- v1) then
        match k0, k1 with
        | [a], [b; c] | [b; c], [a] =>
            bind (ev (and_gadget_expr (EL a) (one_times (EL b)) (one_times (EL c)))) (fun G =>
            bind (as_pubo (tm G)) (fun G' =>
            bind (eq_zero_core empty_pcbo G' lam (Some 0, Some 3)) (fun '(tmp, _, _) =>
            bind (iadd_m m tmp) (fun m' => Ok (Some m')))))
        | _, _ => Ok None
        end
      else Ok None
  | _ => Ok None
  end.

(* add_constraint_eq_zero *)
Definition add_eq (m : model) (Pin : terms) (lam : Q) (b : bounds) : result (model * warn * tag) :=
  bind (as_pubo Pin) (fun P =>
    let m1 := append_constraint m REq (tm P) in
    if qeq0 lam then Ok (m1, WNone, TLamZero) else
    bind (special_eq m1 P lam) (fun s =>
      match s with
      | Some m2 => Ok (m2, WNone, TSpecialEqAnd)
      | None => eq_zero_core m1 P lam b
      end)).

(* ancillas: P[(next_ancilla,)] += v for num_bits values *)
Fixpoint pow2 (i : nat) : Q := match i with O => 1 | S i' => 2 * pow2 i' end.
Fixpoint add_slack (P : model) (a0 : nat) (n i : nat) (log_trick : bool) (hi : Q) : result (model * Q) :=
  match n with
  | O => Ok (P, hi)
  | S n' =>
      let v := if log_trick then pow2 i else 1 in
      bind (m_additem P [anc_label (a0 + i)] v) (fun P' => add_slack P' a0 n' (S i) log_trick (hi + v))
  end.

Definition AND_of_key (k : key) : expr := e_and (map EL k).     (* AND of the labels of a key *)

(* ancillas = PUBO(); ancillas[(next_ancilla,)] += 1, n times *)
Fixpoint mk_ancs (A : model) (a0 i n0 : nat) : result model :=
  match n0 with
  | O => Ok A
  | S n' => bind (m_additem A [anc_label (a0 + i)] 1) (fun A' => mk_ancs A' a0 (S i) n')
  end.

(* _special_constraints_le_zero; returns the new model (with its ancilla counter) when a special form applies *)
Definition special_le (m : model) (P : model) (lam : Q) (log_trick : bool) (lo hi : Q) : result (option (model * tag)) :=
  let off := get_sq (tm P) [] in
  bind (ev (EBin false OpSub (EM P) (EScalar off))) (fun Pwo =>
  if Qeq_bool off (-(1)) && forallb (fun '(_, v) => Qeq_bool v 1) (tm Pwo) then
    bind (ev (EDiv false (EBin false OpMul (lamP lam P) (EM Pwo)) 2)) (fun X =>
    bind (iadd_m m X) (fun m' => Ok (Some (m', TLeAtMostOne))))
  else if negb log_trick && qeq0 (lo - off) && negb (qgt0 off) && negb (qeq0 lo) then
    bind (num_bits (- off) false) (fun n =>
    bind (mk_ancs (empty_model KPubo) (anc m) 0%nat n) (fun ancs =>
    bind (ev (EBin false OpSub (EM Pwo) (EM ancs))) (fun diff =>
    bind (ev (EBin false OpMul (lamP lam diff) (EM diff))) (fun X =>
    bind (iadd_m (with_anc m (anc m + n)) X) (fun m' => Ok (Some (m', TLeUnarySlack)))))))
  else if Qeq_bool off 1 && Nat.eqb (length (tm Pwo)) 2 && forallb (fun '(_, v) => Qeq_bool v (-(1))) (tm Pwo) then
    match tm Pwo with
    | [(k0, _); (k1, _)] =>
        (* PCBO().add_constraint_OR(x, y, lam): P'' = 1 - OR(x, y), bounds (0, 1) *)
        bind (ev (e_not (e_or [AND_of_key k0; AND_of_key k1]))) (fun P2 =>
        bind (as_pubo (tm P2)) (fun P2' =>
        bind (eq_zero_core empty_pcbo P2' lam (Some 0, Some 1)) (fun '(tmp, _, _) =>
        bind (iadd_m m tmp) (fun m' => Ok (Some (m', TLeOr))))))
    | _ => Ok None
    end
  else if qeq0 off && Nat.eqb (length (tm P)) 2 &&
          (match tm P with
           | [(_, v0); (_, v1)] => (Qeq_bool v0 1 && Qeq_bool v1 (-(1))) || (Qeq_bool v0 (-(1)) && Qeq_bool v1 1)
           | _ => false
           end) then
    match tm P with
    | [(k0, v0); (k1, v1)] =>
        let '(kp, kn) := if Qeq_bool v0 1 then (k0, k1) else (k1, k0) in
        (* lam * x * (1 - y) *)
        bind (ev (EBin false OpMul (EBin false OpMul (EScalar lam) (AND_of_key kp))
                                   (EBin false OpSub (EScalar 1) (AND_of_key kn)))) (fun X =>
        bind (iadd_m m X) (fun m' => Ok (Some (m', TLeImplies))))
    | _ => Ok None
    end
  else Ok None).

(* add_constraint_le_zero *)
Definition add_le (m : model) (Pin : terms) (lam : Q) (log_trick : bool) (b : bounds) : result (model * warn * tag) :=
  bind (as_pubo Pin) (fun P =>
    let m1 := append_constraint m RLe (tm P) in
    if qeq0 lam then Ok (m1, WNone, TLamZero) else
    let '(lo, hi) := get_bounds (tm P) b in
    bind (special_le m1 P lam log_trick lo hi) (fun s =>
      match s with
      | Some (m2, t) => Ok (m2, WNone, t)
      | None =>
          if qgt0 lo then bind (ev (lamP lam P)) (fun X => bind (iadd_m m1 X) (fun m' => Ok (m', WUnsat, TLeUnsat)))
          else if negb (qgt0 hi) then Ok (m1, WAlways, TLeAlways)
          else
            bind (m_copy P) (fun Pc =>
            bind (if qeq0 lo then Ok (Pc, hi, 0%nat)
                  else bind (num_bits (- lo) log_trick) (fun n =>
                       bind (add_slack Pc (anc m1) n 0 log_trick hi) (fun '(Ps, hi') => Ok (Ps, hi', n))))
                 (fun '(Ps, hi', n) =>
            let m2 := with_anc m1 (anc m1 + n) in
            bind (add_eq m2 (tm Ps) lam (Some lo, Some hi')) (fun '(m3, _, _) =>
            Ok (pop_constraint m3 REq, WNone, TLeSlack))))
      end)).

(* add_constraint_lt_zero *)
Definition add_lt (m : model) (Pin : terms) (lam : Q) (log_trick : bool) (b : bounds) : result (model * warn * tag) :=
  bind (as_pubo Pin) (fun P =>
    let m1 := append_constraint m RLt (tm P) in
    if qeq0 lam then Ok (m1, WNone, TLamZero) else
    let '(lo, hi) := get_bounds (tm P) b in
    if negb (qlt0 lo) then bind (ev (lamP lam P)) (fun X => bind (iadd_m m1 X) (fun m' => Ok (m', WUnsat, TLtUnsat)))
    else if qlt0 hi then Ok (m1, WAlways, TLtAlways)
    else
      bind (m_add P (OScalar 1)) (fun P1 =>
      bind (add_le m1 (tm P1) lam log_trick (Some (lo + 1), Some (hi + 1))) (fun '(m2, _, t) =>
      Ok (pop_constraint m2 RLe, WNone, t)))).

(* add_constraint_gt_zero: lt(-P) with mirrored bounds; the inner warning is passed on *)
Definition add_gt (m : model) (Pin : terms) (lam : Q) (log_trick : bool) (b : bounds) : result (model * warn * tag) :=
  bind (as_pubo Pin) (fun P =>
    let m1 := append_constraint m RGt (tm P) in
    if qeq0 lam then Ok (m1, WNone, TLamZero) else
    let '(lo, hi) := get_bounds (tm P) b in
    bind (m_neg P) (fun Pn =>
    bind (add_lt m1 (tm Pn) lam log_trick (Some (- hi), Some (- lo))) (fun '(m2, w, t) =>
    Ok (pop_constraint m2 RLt, w, t)))).

Definition add_ge (m : model) (Pin : terms) (lam : Q) (log_trick : bool) (b : bounds) : result (model * warn * tag) :=
  bind (as_pubo Pin) (fun P =>
    let m1 := append_constraint m RGe (tm P) in
    if qeq0 lam then Ok (m1, WNone, TLamZero) else
    let '(lo, hi) := get_bounds (tm P) b in
    bind (m_neg P) (fun Pn =>
    bind (add_le m1 (tm Pn) lam log_trick (Some (- hi), Some (- lo))) (fun '(m2, w, t) =>
    Ok (pop_constraint m2 RLe, w, t)))).

(* the != gadget: P + sign * (1 + sum v_i a_i) with sign = 2 a_0 - 1 *)
Definition boolean_var_expr (l : label) : expr := EModel KPcbo [([l], 1)].
Fixpoint ne_slack (P : model) (sign : expr) (a0 : nat) (n i : nat) (log_trick : bool) (lo hi : Q)
  : result (model * Q * Q) :=
  match n with
  | O => Ok (P, lo, hi)
  | S n' =>
      let v := if log_trick then pow2 i else 1 in
      bind (ev (EBin false OpMul (EBin false OpMul sign (EScalar v)) (boolean_var_expr (anc_label (a0 + i))))) (fun T =>
      bind (m_iadd P (OModel T)) (fun P' => ne_slack P' sign a0 n' (S i) log_trick (lo - v) (hi + v)))
  end.

Definition add_ne (m : model) (Pin : terms) (lam : Q) (log_trick : bool) (b : bounds) : result (model * warn * tag) :=
  bind (as_pubo Pin) (fun P =>
    let m1 := append_constraint m RNe (tm P) in
    if qeq0 lam then Ok (m1, WNone, TLamZero) else
    let '(lo, hi) := get_bounds (tm P) b in
    if qeq0 lo && qeq0 hi then bind (m_iadd m1 (OScalar lam)) (fun m' => Ok (m', WUnsat, TNeUnsat))
    else if qgt0 lo then Ok (m1, WAlways, TNeAlways)
    else if qlt0 hi then Ok (m1, WAlways, TNeAlways)
    else if qeq0 lo then
      (* gt without forwarding log_trick *)
      bind (add_gt m1 (tm P) lam true (Some lo, Some hi)) (fun '(m2, w, _) => Ok (pop_constraint m2 RGt, w, TNeGt))
    else if qeq0 hi then
      bind (add_lt m1 (tm P) lam true (Some lo, Some hi)) (fun '(m2, w, _) => Ok (pop_constraint m2 RLt, w, TNeLt))
    else
      bind (m_copy P) (fun Pc =>
      let a0 := anc m1 in
      let sign := EBin false OpSub (EBin false OpMul (EScalar 2) (boolean_var_expr (anc_label a0))) (EScalar 1) in
      bind (ev sign) (fun S0 =>
      bind (m_iadd Pc (OModel S0)) (fun P1 =>
      let hi1 := hi + 1 in let lo1 := lo - 1 in
      bind (num_bits (hi1 - lo1 - 1) log_trick) (fun n =>
      bind (ne_slack P1 sign (S a0) n 0 log_trick lo1 hi1) (fun '(P2, lo2, hi2) =>
      let m2 := with_anc m1 (S a0 + n) in
      bind (add_eq m2 (tm P2) lam (Some lo2, Some hi2)) (fun '(m3, _, _) =>
      Ok (pop_constraint m3 REq, WNone, TNeGadget)))))))).

Definition add_constraint (r : rel) (m : model) (Pin : terms) (lam : Q) (log_trick : bool) (b : bounds)
  : result (model * warn * tag) :=
  match r with
  | REq => add_eq m Pin lam b
  | RNe => add_ne m Pin lam log_trick b
  | RLt => add_lt m Pin lam log_trick b
  | RLe => add_le m Pin lam log_trick b
  | RGt => add_gt m Pin lam log_trick b
  | RGe => add_ge m Pin lam log_trick b
  end.

(* ---- is_solution_valid ---- *)
Definition rel_holds (r : rel) (v : Q) : bool :=
  match r, v ?= 0 with
  | REq, Eq => true | REq, _ => false
  | RNe, Eq => false | RNe, _ => true
  | RLt, Lt => true | RLt, _ => false
  | RLe, Gt => false | RLe, _ => true
  | RGt, Gt => true | RGt, _ => false
  | RGe, Lt => false | RGe, _ => true
  end.
Definition is_solution_valid (m : model) (x : env) : bool :=
  forallb (fun '(r, P) => rel_holds r (eval x P)) (cons m).

(* remove_ancilla_from_solution: drop the labels whose str starts with '__a' *)
Definition remove_ancilla (sol : list (label * Q)) : list (label * Q) :=
  filter (fun p => negb (is_anc_label (fst p))) sol.
