(* qubovert/sim/_anneal_results.py: AnnealResults = list + cached `best`.
   The model follows the code after the repairs D3 (extend / += with an empty
   side) and D4 (item assignment / deletion recompute best). *)
From QV.Model Require Import Base.
Open Scope Q_scope.

(* an AnnealResult: value, state (bit i set <-> boolean 1 / spin -1), spin flag *)
Record aresult := { rval : Q; rbits : list bool; rspin : bool }.

Fixpoint bits_eqb (a b : list bool) : bool :=
  match a, b with
  | [], [] => true
  | x :: a', y :: b' => Bool.eqb x y && bits_eqb a' b'
  | _, _ => false
  end.
(* AnnealResult.__eq__ : state, value and spin flag *)
Definition r_eqb (a b : aresult) : bool :=
  Qeq_bool (rval a) (rval b) && bits_eqb (rbits a) (rbits b) && Bool.eqb (rspin a) (rspin b).

Definition qlt (a b : Q) : bool := match a ?= b with Lt => true | _ => false end.

Record coll := { items : list aresult; best : option aresult }.
Definition empty_coll : coll := {| items := []; best := None |}.

(* _recompute_best: first element with the smallest value *)
Definition better (b : option aresult) (r : aresult) : option aresult :=
  match b with
  | None => Some r
  | Some b' => if qlt (rval r) (rval b') then Some r else Some b'
  end.
Definition recompute (l : list aresult) : option aresult := fold_left better l None.

Definition c_append (c : coll) (r : aresult) : coll :=
  {| items := items c ++ [r]; best := better (best c) r |}.
(* AnnealResults(iterable) *)
Definition c_of_list (l : list aresult) : coll := fold_left c_append l empty_coll.

(* Python index handling *)
Definition norm_index (i : Z) (len : nat) : option nat :=
  let i' := if (i <? 0)%Z then (i + Z.of_nat len)%Z else i in
  if (i' <? 0)%Z then None else if (i' <? Z.of_nat len)%Z then Some (Z.to_nat i') else None.
Definition clamp_insert (i : Z) (len : nat) : nat :=
  let i' := if (i <? 0)%Z then (i + Z.of_nat len)%Z else i in
  if (i' <? 0)%Z then 0%nat else if (Z.of_nat len <? i')%Z then len else Z.to_nat i'.

Fixpoint insert_at {A} (n : nat) (x : A) (l : list A) : list A :=
  match n, l with
  | O, _ => x :: l
  | S n', [] => [x]
  | S n', y :: l' => y :: insert_at n' x l'
  end.
Fixpoint remove_at {A} (n : nat) (l : list A) : list A :=
  match n, l with
  | _, [] => []
  | O, _ :: l' => l'
  | S n', y :: l' => y :: remove_at n' l'
  end.
Fixpoint set_at {A} (n : nat) (x : A) (l : list A) : list A :=
  match n, l with
  | _, [] => []
  | O, _ :: l' => x :: l'
  | S n', y :: l' => y :: set_at n' x l'
  end.
Fixpoint find_index (r : aresult) (l : list aresult) : option nat :=
  match l with
  | [] => None
  | x :: l' => if r_eqb x r then Some 0%nat else option_map S (find_index r l')
  end.

(* slice(start, stop, step).indices(len) *)
Record pyslice := { s_start : option Z; s_stop : option Z; s_step : option Z }.
Definition adj (step : Z) (v : option Z) (len : Z) (dflt : Z) : Z :=
  match v with
  | None => dflt
  | Some x =>
      let x' := if (x <? 0)%Z then (x + len)%Z else x in
      if (0 <? step)%Z then (if (x' <? 0)%Z then 0%Z else if (len <? x')%Z then len else x')
      else (if (x' <? 0)%Z then (-1)%Z else if (len <=? x')%Z then (len - 1)%Z else x')
  end.
Fixpoint slice_walk (fuel : nat) (i stop step : Z) : list nat :=
  match fuel with
  | O => []
  | S f => if (if (0 <? step)%Z then (i <? stop)%Z else (stop <? i)%Z)
           then Z.to_nat i :: slice_walk f (i + step)%Z stop step else []
  end.
Definition slice_indices (s : pyslice) (len : nat) : result (list nat * Z * Z) :=
  let step := match s_step s with None => 1%Z | Some x => x end in
  if (step =? 0)%Z then Err ValueError else
  let L := Z.of_nat len in
  let start := adj step (s_start s) L (if (0 <? step)%Z then 0%Z else (L - 1)%Z) in
  let stop := adj step (s_stop s) L (if (0 <? step)%Z then L else (-1)%Z) in
  Ok (slice_walk len start stop step, start, stop).

Definition nth_all {A} (l : list A) (idx : list nat) : list A :=
  flat_map (fun i => match nth_error l i with Some x => [x] | None => [] end) idx.
Definition remove_all {A} (l : list A) (idx : list nat) : list A :=
  map snd (filter (fun p => negb (existsb (Nat.eqb (fst p)) idx)) (combine (seq 0 (length l)) l)).
Fixpoint set_all {A} (l : list A) (idx : list nat) (xs : list A) : list A :=
  match idx, xs with
  | i :: idx', x :: xs' => set_all (set_at i x l) idx' xs'
  | _, _ => l
  end.

(* stable sort by value; reverse keeps the relative order of equal values (as list.sort does) *)
Fixpoint sort_ins (rev : bool) (r : aresult) (l : list aresult) : list aresult :=
  match l with
  | [] => [r]
  | x :: l' => (* r came earlier than everything in l: it goes before the first x that does not
                  strictly precede it *)
               if (if rev then qlt (rval r) (rval x) else qlt (rval x) (rval r))
               then x :: sort_ins rev r l' else r :: l
  end.
Definition sort_stable (rev : bool) (l : list aresult) : list aresult :=
  fold_right (sort_ins rev) [] l.

(* menus of user functions *)
Inductive rpred := PValLt (c : Q) | PSpin | PAll | PNone.
Definition rpred_eval (p : rpred) (r : aresult) : bool :=
  match p with PValLt c => qlt (rval r) c | PSpin => rspin r | PAll => true | PNone => false end.
Inductive spred := SFirstSet | SAnySet | SAll.
Definition spred_eval (p : spred) (r : aresult) : bool :=
  match p with
  | SFirstSet => match rbits r with b :: _ => b | [] => false end
  | SAnySet => existsb (fun b => b) (rbits r)
  | SAll => true
  end.
Inductive rfun := FCopy | FNeg | FShift (c : Q).
Definition rfun_eval (f : rfun) (r : aresult) : aresult :=
  match f with
  | FCopy => r
  | FNeg => {| rval := - rval r; rbits := rbits r; rspin := rspin r |}
  | FShift c => {| rval := Qred (rval r + c); rbits := rbits r; rspin := rspin r |}
  end.
Inductive sfun := GFlip | GRev | GId.
Definition sfun_eval (g : sfun) (r : aresult) : aresult :=
  {| rval := rval r;
     rbits := match g with GFlip => map negb (rbits r) | GRev => rev (rbits r) | GId => rbits r end;
     rspin := rspin r |}.
Definition r_to_spin (r : aresult) : aresult := {| rval := rval r; rbits := rbits r; rspin := true |}.
Definition r_to_bool (r : aresult) : aresult := {| rval := rval r; rbits := rbits r; rspin := false |}.

(* ---- the machine: three registers holding collections ---- *)
Definition reg := nat.
Inductive aop :=
| Construct (d : reg) (l : list aresult)
| Append (d : reg) (r : aresult)                 (* append / add_state *)
| Insert (d : reg) (i : Z) (r : aresult)
| Remove (d : reg) (r : aresult)
| Pop (d : reg) (i : Z)
| Extend (d s : reg)                             (* d.extend(s), s an AnnealResults; also d += s *)
| ExtendList (d : reg) (l : list aresult)        (* d.extend(list) / d += list *)
| Add (k a b : reg)                              (* k = a + b *)
| AddList (k a : reg) (l : list aresult)         (* k = a + list *)
| Mul (k a : reg) (n : Z)                        (* k = a * n *)
| GetSlice (k a : reg) (s : pyslice)             (* k = a[s] *)
| GetItem (a : reg) (i : Z)                      (* a[i] *)
| SetItem (d : reg) (i : Z) (r : aresult)        (* d[i] = r *)
| SetSlice (d : reg) (s : pyslice) (l : list aresult)
| DelItem (d : reg) (i : Z)
| DelSlice (d : reg) (s : pyslice)
| Clear (d : reg)
| Sort (d : reg) (rev : bool)
| Copy (k a : reg)
| Filter (k a : reg) (p : rpred)
| FilterStates (k a : reg) (p : spred)
| Apply (k a : reg) (f : rfun)
| Convert (k a : reg) (g : sfun)
| ToBool (k a : reg)
| ToSpin (k a : reg).

Definition store := list coll.
Definition rd (s : store) (r : reg) : coll := nth r s empty_coll.
Definition wr (s : store) (r : reg) (c : coll) : store := set_at r c s.

Definition with_items_recompute (l : list aresult) : coll := {| items := l; best := recompute l |}.

(* d.extend(o) for an AnnealResults o *)
Definition c_extend (c o : coll) : coll :=
  {| items := items c ++ items o;
     best := match best o with
             | None => best c
             | Some bo => match best c with
                          | None => Some bo
                          | Some bc => if qlt (rval bo) (rval bc) then Some bo else Some bc
                          end
             end |}.

Definition step (s : store) (o : aop) : result store :=
  match o with
  | Construct d l => Ok (wr s d (c_of_list l))
  | Append d r => Ok (wr s d (c_append (rd s d) r))
  | Insert d i r =>
      let c := rd s d in
      Ok (wr s d {| items := insert_at (clamp_insert i (length (items c))) r (items c); best := better (best c) r |})
  | Remove d r =>
      let c := rd s d in
      match find_index r (items c) with
      | None => Err ValueError
      | Some n =>
          let l' := remove_at n (items c) in
          let b' := match best c with
                    | Some b => if r_eqb r b then recompute l' else Some b
                    | None => None
                    end in
          Ok (wr s d {| items := l'; best := b' |})
      end
  | Pop d i =>
      let c := rd s d in
      match norm_index i (length (items c)) with
      | None => Err IndexError
      | Some n =>
          let l' := remove_at n (items c) in
          let b' := match nth_error (items c) n, best c with
                    | Some r, Some b => if r_eqb r b then recompute l' else Some b
                    | _, _ => recompute l'
                    end in
          Ok (wr s d {| items := l'; best := b' |})
      end
  | Extend d s0 => Ok (wr s d (c_extend (rd s d) (rd s s0)))
  | ExtendList d l => Ok (wr s d (fold_left c_append l (rd s d)))
  | Add k a b => Ok (wr s k (c_of_list (items (rd s a) ++ items (rd s b))))
  | AddList k a l => Ok (wr s k (c_of_list (items (rd s a) ++ l)))
  | Mul k a n => Ok (wr s k (c_of_list (concat (repeat (items (rd s a)) (Z.to_nat n)))))
  | GetSlice k a sl =>
      let c := rd s a in
      bind (slice_indices sl (length (items c))) (fun '(idx, _, _) => Ok (wr s k (c_of_list (nth_all (items c) idx))))
  | GetItem a i =>
      match norm_index i (length (items (rd s a))) with None => Err IndexError | Some _ => Ok s end
  | SetItem d i r =>
      let c := rd s d in
      match norm_index i (length (items c)) with
      | None => Err IndexError
      | Some n => Ok (wr s d (with_items_recompute (set_at n r (items c))))
      end
  | SetSlice d sl l =>
      let c := rd s d in
      bind (slice_indices sl (length (items c))) (fun '(idx, start, stop) =>
        match s_step sl with
        | None | Some 1%Z =>
            let a := Z.to_nat start in
            let b := Nat.max a (Z.to_nat stop) in
            Ok (wr s d (with_items_recompute (firstn a (items c) ++ l ++ skipn b (items c))))
        | Some _ =>
            if Nat.eqb (length idx) (length l)
            then Ok (wr s d (with_items_recompute (set_all (items c) idx l)))
            else Err ValueError
        end)
  | DelItem d i =>
      let c := rd s d in
      match norm_index i (length (items c)) with
      | None => Err IndexError
      | Some n => Ok (wr s d (with_items_recompute (remove_at n (items c))))
      end
  | DelSlice d sl =>
      let c := rd s d in
      bind (slice_indices sl (length (items c))) (fun '(idx, _, _) =>
        Ok (wr s d (with_items_recompute (remove_all (items c) idx))))
  | Clear d => Ok (wr s d empty_coll)
  | Sort d rev => let c := rd s d in Ok (wr s d {| items := sort_stable rev (items c); best := best c |})
  | Copy k a => Ok (wr s k (c_of_list (items (rd s a))))
  | Filter k a p => Ok (wr s k (c_of_list (filter (rpred_eval p) (items (rd s a)))))
  | FilterStates k a p => Ok (wr s k (c_of_list (filter (spred_eval p) (items (rd s a)))))
  | Apply k a f => Ok (wr s k (c_of_list (map (rfun_eval f) (items (rd s a)))))
  | Convert k a g => Ok (wr s k (c_of_list (map (sfun_eval g) (items (rd s a)))))
  | ToBool k a => Ok (wr s k (c_of_list (map r_to_bool (items (rd s a)))))
  | ToSpin k a => Ok (wr s k (c_of_list (map r_to_spin (items (rd s a)))))
  end.

Definition init_store : store := [empty_coll; empty_coll; empty_coll].

(* an operation that raises leaves the store unchanged *)
Definition step_total (s : store) (o : aop) : store :=
  match step s o with Ok s' => s' | Err _ => s end.
Definition run (ops : list aop) : store := fold_left step_total ops init_store.
