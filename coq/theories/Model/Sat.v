(* qubovert/sat/_satisfiability.py: the eight builders as expression trees over
   the DictArithmetic operators (Model/Expr.v interprets them with Python's
   operator dispatch). *)
From QV.Model Require Import Base Matrix Arith Expr.
Open Scope Q_scope.

Inductive gate := GBuffer | GNot | GAnd | GNand | GOr | GNor | GXor | GXnor.

Inductive sx :=
| SLbl (l : label)                   (* a label: BUFFER gives PUBO({(l,): 1}) *)
| SDict (t : terms)                  (* a plain dict: BUFFER gives PUBO(t) *)
| SMdl (k : kind) (t : terms)        (* a boolean model object cls(t): BUFFER gives its copy *)
| SGate (g : gate) (args : list sx).

Definition e_one : expr := EBin false OpAdd (EModel KPubo []) (EScalar 1).   (* PUBO() + 1 *)
Definition e_not (x : expr) : expr := EBin false OpSub (EScalar 1) x.        (* 1 - BUFFER(x) *)
(* P = 1; for v in variables: P *= BUFFER(v) *)
Definition e_and (es : list expr) : expr :=
  match es with
  | [] => e_one
  | _ => fold_left (fun P v => EBin true OpMul P v) es (EScalar 1)
  end.
(* x = OR of all but the last operand, v = BUFFER of the last one; x + v * (1 - x) *)
Definition e_or (es : list expr) : expr :=
  match es with
  | [] => e_one
  | a :: rest => fold_left (fun x v => EBin false OpAdd x (EBin false OpMul v (EBin false OpSub (EScalar 1) x))) rest a
  end.
(* (x - v) ** 2 *)
Definition e_xor (es : list expr) : expr :=
  match es with
  | [] => e_one
  | a :: rest => fold_left (fun x v => EPow false (EBin false OpSub x v) 2) rest a
  end.

Definition gate_expr (g : gate) (es : list expr) : expr :=
  match g with
  | GBuffer => match es with [a] => a | _ => EScalar 0 end      (* BUFFER / NOT take exactly one operand *)
  | GNot => match es with [a] => e_not a | _ => EScalar 0 end
  | GAnd => e_and es
  | GNand => e_not (e_and es)
  | GOr => e_or es
  | GNor => e_not (e_or es)
  | GXor => e_xor es
  | GXnor => e_not (e_xor es)
  end.

Fixpoint sat_expr (e : sx) : expr :=
  match e with
  | SLbl l => EModel KPubo [([l], 1)]
  | SDict t => EModel KPubo t
  | SMdl k t => EModel k t
  | SGate g args => gate_expr g (map sat_expr args)
  end.

Definition build (e : sx) : result operand := interp (sat_expr e).

(* ---- truth functions ---- *)
Definition leaf_val (env0 : env) (e : sx) : option Q :=
  match e with
  | SLbl l => Some (env0 l)
  | SDict t | SMdl _ t => Some (eval env0 t)
  | SGate _ _ => None
  end.

Fixpoint truth (env0 : env) (e : sx) : bool :=
  match e with
  | SLbl l => negb (qzero (env0 l))
  | SDict t | SMdl _ t => negb (qzero (eval env0 t))
  | SGate g args =>
      let bs := map (truth env0) args in
      match g with
      | GBuffer => match bs with [b] => b | _ => false end
      | GNot => match bs with [b] => negb b | _ => false end
      | GAnd => forallb (fun b => b) bs
      | GNand => negb (forallb (fun b => b) bs)
      | GOr => match bs with [] => true | _ => existsb (fun b => b) bs end
      | GNor => negb (match bs with [] => true | _ => existsb (fun b => b) bs end)
      | GXor => match bs with [] => true | _ => fold_left xorb bs false end      (* odd parity *)
      | GXnor => negb (match bs with [] => true | _ => fold_left xorb bs false end)
      end
  end.

(* all leaves evaluate to 0 or 1 at env0, every gate has at least one operand,
   BUFFER / NOT exactly one, model leaves are of a boolean kind *)
Fixpoint sx_ok (env0 : env) (e : sx) : Prop :=
  match e with
  | SLbl l => env0 l == 0 \/ env0 l == 1
  | SDict t => eval env0 t == 0 \/ eval env0 t == 1
  | SMdl k t => (eval env0 t == 0 \/ eval env0 t == 1) /\ is_spin k = false /\ k <> KDict
  | SGate g args =>
      (fix all (l : list sx) : Prop := match l with [] => True | a :: l' => sx_ok env0 a /\ all l' end) args
      /\ match g with GBuffer | GNot => length args = 1%nat | _ => (1 <= length args)%nat end
  end.
