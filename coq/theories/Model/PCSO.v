(* qubovert/_pcso.py: each spin constraint method converts to boolean form, lets an empty PCBO that
   carries the ancilla counter build the penalty, takes the counter back and adds the penalty converted
   to spin form. *)
From QV.Model Require Import Base Matrix Arith Expr Extrema Sat PCBO Convert.
Open Scope Q_scope.

Definition pcso_add (r : rel) (m : model) (Hin : terms) (lam : Q) (log_trick : bool) (b : bounds)
  : result (model * warn * tag) :=
  bind (m_create KPuso Hin) (fun H =>
    let m1 := append_constraint m r (tm H) in
    if qeq0 lam then Ok (m1, WNone, TLamZero) else
    bind (puso_to_pubo (Some KPuso) (tm H)) (fun Pb =>
    bind (add_constraint r (with_anc empty_pcbo (anc m1)) (tm Pb) lam log_trick b) (fun '(h, w, t) =>
    bind (pubo_to_puso (Some KPcbo) (tm h)) (fun S =>
    bind (m_iadd (with_anc m1 (anc h)) (OModel S)) (fun m2 => Ok (m2, w, t)))))).

Definition pcso_is_solution_valid (m : model) (z : env) : bool :=
  forallb (fun '(r, P) => rel_holds r (eval z P)) (cons m).
