(* qubovert/utils/_conversions.py, the relabelling conversions of the labelled
   kinds (_qubo.py, _quso.py, _puso.py), convert_solution, is_solution_spin, and
   the exports Q / h / J / matrix_to_qubo / qubo_to_matrix. *)
From QV.Model Require Import Base Matrix.
Open Scope Q_scope.

(* ---- boolean <-> spin: the recursive generators of pubo_to_puso / puso_to_pubo ---- *)
Fixpoint gen_b2s (k : key) : list (key * Q) :=
  match k with
  | [] => [([], 1)]
  | x :: k' => flat_map (fun '(key, value) => [(x :: key, - value / 2); (key, value / 2)]) (gen_b2s k')
  end.
Fixpoint gen_s2b (k : key) : list (key * Q) :=
  match k with
  | [] => [([], 1)]
  | x :: k' => flat_map (fun '(key, value) => [(x :: key, -(2) * value); (key, value)]) (gen_s2b k')
  end.
Definition expand (gen : key -> list (key * Q)) (P : terms) : terms :=
  flat_map (fun '(k, v) => map (fun '(key, value) => (key, value * v)) (gen k)) P.

(* result type: matrix type in gives matrix type out, anything else gives the labelled type *)
Definition is_matrix (k : option kind) : bool :=
  match k with Some (KQuboM | KQusoM | KPuboM | KPusoM) => true | _ => false end.

(* src = None : a plain dict *)
Definition pubo_to_puso (src : option kind) (P : terms) : result model :=
  m_create (if is_matrix src then KPusoM else KPuso) (expand gen_b2s P).
Definition puso_to_pubo (src : option kind) (H : terms) : result model :=
  m_create (if is_matrix src then KPuboM else KPubo) (expand gen_s2b H).

(* ---- the closed-form quadratic converters ---- *)
Definition q2s_term (k : key) (v : Q) : result terms :=
  match k with
  | [] => Ok [([], v)]
  | [i] => Ok [([i], - (v / 2)); ([], v / 2)]
  | [i; j] => Ok [([i; j], v / 4); ([i], - (v / 4)); ([j], - (v / 4)); ([], v / 4)]
  | _ => Err ValueError
  end.
Definition s2q_term (k : key) (v : Q) : result terms :=
  match k with
  | [] => Ok [([], v)]
  | [i] => Ok [([i], - (2 * v)); ([], v)]
  | [i; j] => Ok [([i; j], 4 * v); ([i], - (2 * v)); ([j], - (2 * v)); ([], v)]
  | _ => Err ValueError
  end.
Fixpoint expand_quad (term : key -> Q -> result terms) (sq : key -> result key) (P : terms) : result terms :=
  match P with
  | [] => Ok []
  | (k, v) :: P' =>
      bind (sq k) (fun k' => bind (term k' v) (fun t => bind (expand_quad term sq P') (fun r => Ok (t ++ r))))
  end.
Definition qubo_to_quso (src : option kind) (Q : terms) : result model :=
  let sq := match src with Some (KQuboM | KQubo) => (fun k => Ok k) | _ => squash KQubo end in
  bind (expand_quad q2s_term sq Q) (fun t =>
    m_create (match src with Some KQuboM => KQusoM | _ => KQuso end) t).
Definition quso_to_qubo (src : option kind) (L : terms) : result model :=
  let sq := match src with Some (KQusoM | KQuso) => (fun k => Ok k) | _ => squash KQuso end in
  bind (expand_quad s2q_term sq L) (fun t =>
    m_create (match src with Some KQusoM => KQuboM | _ => KQubo end) t).

(* ---- relabelling through the mapping ---- *)
Fixpoint relabel_key (mpx : list (label * nat)) (k : key) : result key :=
  match k with
  | [] => Ok []
  | i :: k' => match mp_get i mpx with
               | Some n => bind (relabel_key mpx k') (fun r => Ok (n :: r))
               | None => Err KeyError
               end
  end.
Fixpoint relabel_terms (mpx : list (label * nat)) (t : terms) : result terms :=
  match t with
  | [] => Ok []
  | (k, v) :: t' => bind (relabel_key mpx k) (fun k' => bind (relabel_terms mpx t') (fun r => Ok ((k', v) :: r)))
  end.

(* QUBO.to_qubo / QUSO.to_quso / PUSO._to_puso : Matrix[key] += v for the relabelled keys *)
Definition to_matrix (out : kind) (m : model) : result model :=
  bind (relabel_terms (mp m) (tm m)) (fun t => m_create out t).

(* the methods of the two quadratic labelled kinds *)
Definition qubo_to_qubo (m : model) := to_matrix KQuboM m.
Definition qubo_to_pubo (m : model) := bind (qubo_to_qubo m) (fun q => m_create KPuboM (tm q)).
Definition qubo_to_quso_m (m : model) := bind (qubo_to_qubo m) (fun q => qubo_to_quso (Some KQuboM) (tm q)).
Definition qubo_to_puso_m (m : model) := bind (qubo_to_pubo m) (fun p => pubo_to_puso (Some KPuboM) (tm p)).
Definition quso_to_quso (m : model) := to_matrix KQusoM m.
Definition quso_to_puso (m : model) := bind (quso_to_quso m) (fun q => m_create KPusoM (tm q)).
Definition quso_to_qubo_m (m : model) := bind (quso_to_quso m) (fun q => quso_to_qubo (Some KQusoM) (tm q)).
Definition quso_to_pubo_m (m : model) := bind (quso_to_puso m) (fun p => puso_to_pubo (Some KPusoM) (tm p)).

(* ---- solutions ---- *)
(* a solution container: values for the integer labels 0 .. len-1 (list / tuple) or a dict *)
Definition is_solution_spin (vals : list Z) (default : bool) : bool :=
  (fix go (l : list Z) := match l with
                          | [] => default
                          | v :: l' => if (v =? 0)%Z then false else if (v =? -1)%Z then true else go l'
                          end) vals.
Definition spin_to_boolean_v (v : Z) : result Z :=
  if (v =? -1)%Z then Ok 1%Z else if (v =? 1)%Z then Ok 0%Z else Err KeyError.
Definition boolean_to_spin_v (v : Z) : result Z :=
  if (v =? 0)%Z then Ok 1%Z else if (v =? 1)%Z then Ok (-1)%Z else Err KeyError.
Fixpoint map_res {A B} (f : A -> result B) (l : list A) : result (list B) :=
  match l with
  | [] => Ok []
  | x :: l' => bind (f x) (fun y => bind (map_res f l') (fun r => Ok (y :: r)))
  end.

Fixpoint sol_get (i : nat) (sol : list (nat * Z)) : option Z :=
  match sol with [] => None | (j, v) :: s' => if (i =? j)%nat then Some v else sol_get i s' end.

(* QUBO/PUBO/PCBO.convert_solution (to_spin = false) and QUSO/PUSO/PCSO.convert_solution (to_spin = true):
   sol maps integer labels to values, in iteration order; n = num_binary_variables *)
Definition convert_solution (to_spin : bool) (m : model) (sol : list (nat * Z)) (spin_flag : bool)
  : result (list (label * Z)) :=
  let isspin := is_solution_spin (map snd sol) spin_flag in
  bind (if to_spin then (if isspin then Ok sol
                         else map_res (fun '(i, v) => bind (boolean_to_spin_v v) (fun w => Ok (i, w))) sol)
        else (if isspin then map_res (fun '(i, v) => bind (spin_to_boolean_v v) (fun w => Ok (i, w))) sol
              else Ok sol))
       (fun sol' =>
          map_res (fun i => match rmp_get i (mp m), sol_get i sol' with
                            | Some l, Some v => Ok (l, v)
                            | _, _ => Err KeyError
                            end) (seq 0 (num_vars m))).

(* ---- exports ---- *)
Definition is_const (p : key * Q) : bool := match fst p with [] => true | _ => false end.
Definition const_terms (t : terms) : terms := filter is_const t.
(* QUBOMatrix.Q : {k * (3 - len(k)) : v for k, v in items if k} *)
Definition export_Q (t : terms) : terms :=
  flat_map (fun '(k, v) => match k with [] => [] | [i] => [([i; i], v)] | _ => [(k, v)] end) t.
Definition export_h (t : terms) : list (label * Q) :=
  flat_map (fun '(k, v) => match k with [i] => [(i, v)] | _ => [] end) t.
Definition export_J (t : terms) : terms :=
  filter (fun '(k, _) => Nat.eqb (length k) 2) t.

(* qubo_to_matrix(Q, symmetric) : list of (row, col, value) entries written, in order (later entries overwrite);
   None for the ValueError cases (empty, offset) *)
Definition matrix_entry (symmetric : bool) (p : key * Q) : list (nat * nat * Q) :=
  let '(k, v) := p in
  match k with
  | [i] => [(i, i, v)]
  | [i; j] => if symmetric then [(i, j, v / 2); (j, i, v / 2)] else [(i, j, v)]
  | _ => []
  end.
Definition qubo_to_matrix (t : terms) (symmetric : bool) : result (list (nat * nat * Q)) :=
  match t with
  | [] => Err ValueError
  | _ => if negb (qzero (get_sq t [])) then Err ValueError
         else Ok (flat_map (matrix_entry symmetric) t)
  end.
(* matrix_to_qubo : Q[i, j] += m[i][j] in row-major order *)
Definition matrix_to_qubo (entries : list (nat * nat * Q)) : result model :=
  m_create KQuboM (map (fun '(i, j, v) => ([i; j], v)) entries).
