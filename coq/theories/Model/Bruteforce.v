(* qubovert/utils/_solve_bruteforce.py *)
From QV.Model Require Import Base.
Open Scope Q_scope.

Definition asg := list Q.     (* values aligned with the variable list *)

(* itertools.product(values, repeat=n): first variable most significant *)
Fixpoint all_asg (vals : list Q) (n : nat) : list asg :=
  match n with
  | O => [[]]
  | S n' => flat_map (fun v => map (cons v) (all_asg vals n')) vals
  end.

Fixpoint env_of_asg (vars : list label) (a : asg) : env :=
  match vars, a with
  | l :: vars', v :: a' => fun i => if Nat.eqb i l then v else env_of_asg vars' a' i
  | _, _ => fun _ => 0
  end.

Definition qle (a b : Q) : bool := match a ?= b with Gt => false | _ => true end.
Definition qltb (a b : Q) : bool := match a ?= b with Lt => true | _ => false end.

Fixpoint asg_eqb (a b : asg) : bool :=
  match a, b with
  | [], [] => true
  | x :: a', y :: b' => Qeq_bool x y && asg_eqb a' b'
  | _, _ => false
  end.

(* all_sols.setdefault(v, []).append(x) *)
Fixpoint bucket_add (v : Q) (x : asg) (b : list (Q * list asg)) : list (Q * list asg) :=
  match b with
  | [] => [(v, [x])]
  | (w, l) :: b' => if Qeq_bool v w then (w, l ++ [x]) :: b' else (w, l) :: bucket_add v x b'
  end.
Fixpoint bucket_get (v : Q) (b : list (Q * list asg)) : list asg :=
  match b with
  | [] => []
  | (w, l) :: b' => if Qeq_bool v w then l else bucket_get v b'
  end.

Record bstate := { bbest : option (Q * asg); bbuckets : list (Q * list asg) }.

(* one iteration of the loop for an assignment that passed `valid`, with its value v *)
Definition bstep (all : bool) (st : bstate) (x : asg) (v : Q) : bstate :=
  if all then
    match bbest st with
    | Some (b, _) => if qle v b then {| bbest := Some (v, x); bbuckets := bucket_add v x (bbuckets st) |} else st
    | None => {| bbest := Some (v, x); bbuckets := bucket_add v x (bbuckets st) |}
    end
  else
    match bbest st with
    | Some (b, _) => if qltb v b then {| bbest := Some (v, x); bbuckets := bbuckets st |} else st
    | None => {| bbest := Some (v, x); bbuckets := bbuckets st |}
    end.

Definition bloop (all : bool) (value : asg -> Q) (valid : asg -> bool) (xs : list asg) : bstate :=
  fold_left (fun st x => if valid x then bstep all st x (value x) else st) xs {| bbest := None; bbuckets := [] |}.

Definition has_nonconst (D : terms) : bool := existsb (fun '(k, _) => match k with [] => false | _ => true end) D.

(* result: objective (None when nothing is valid) and the list of returned assignments
   (one for all_solutions = False -- the empty one when nothing is valid or the model is constant) *)
Definition solve (spin : bool) (vars : list label) (D : terms) (all : bool) (valid : asg -> bool)
  : option Q * list asg :=
  match D with
  | [] => (Some 0, [[]])
  | _ =>
    if negb (has_nonconst D) then (Some (get_sq D []), [[]])
    else
      let vals := if spin then [1; -(1)] else [0; 1] in
      let st := bloop all (fun a => eval (env_of_asg vars a) D) valid (all_asg vals (length vars)) in
      match bbest st with
      | None => (None, [[]])
      | Some (v, x) => (Some v, if all then bucket_get v (bbuckets st) else [x])
      end
  end.

(* a small menu of validity predicates, all symmetric in the variables *)
Inductive vpred := VAll | VNone | VParity | VCardLe (k : nat) | VCardGe (k : nat).
Definition active (spin : bool) (v : Q) : bool := if spin then Qeq_bool v (-(1)) else Qeq_bool v 1.
Definition vpred_eval (spin : bool) (p : vpred) (a : asg) : bool :=
  let c := length (filter (active spin) a) in
  match p with
  | VAll => true | VNone => false
  | VParity => Nat.even c
  | VCardLe k => (c <=? k)%nat
  | VCardGe k => (k <=? c)%nat
  end.
