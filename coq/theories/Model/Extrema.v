(* qubovert/utils/_approximate_extrema.py, _binary_helpers.num_bits,
   sim/_anneal_temperature_range.py (the rational part; the logarithm is in
   Proofs/TempRange.v over R). *)
From QV.Model Require Import Base Matrix.
From Coq Require Import Qminmax Qround.
Open Scope Q_scope.

Definition pubo_step (a : Q * Q) (t : key * Q) : Q * Q :=
  let '(lo, hi) := a in let '(k, v) := t in
  match k with
  | [] => (lo + v, hi + v)
  | _ => if Qlt_le_dec v 0 then (lo + v, hi) else (lo, hi + v)
  end.
Definition approx_pubo (P : terms) : Q * Q := fold_left pubo_step P (0, 0).

Definition puso_step (a : Q * Q) (t : key * Q) : Q * Q :=
  let '(lo, hi) := a in let '(k, v) := t in
  match k with
  | [] => (lo + v, hi + v)
  | _ => (lo - Qabs v, hi + Qabs v)
  end.
Definition approx_puso (H : terms) : Q * Q := fold_left puso_step H (0, 0).

(* labels occurring in the keys of a plain dict, duplicate free *)
Definition key_vars (t : terms) : list label :=
  fold_left (fun vs '(k, _) => add_vars vs k) t [].

Definition qmin_list (l : list Q) : option Q :=
  match l with [] => None | x :: l' => Some (fold_left Qmin l' x) end.
Definition qmax_list (l : list Q) : option Q :=
  match l with [] => None | x :: l' => Some (fold_left Qmax l' x) end.
Definition qsum (l : list Q) : Q := fold_left Qplus l 0.

Definition nonconst (t : terms) : terms :=
  filter (fun '(k, _) => match k with [] => false | _ => true end) t.

(* (min_del_energy, max_del_energy) of anneal_temperature_range for a spin
   model given as terms and the variable set the code uses; None when the code
   takes min()/max() of an empty sequence (ValueError). *)
Definition del_energies (t : terms) (vars : list label) : option (Q * Q) :=
  let nc := nonconst t in
  match qmin_list (map (fun '(_, c) => Qabs c) nc),
        qmax_list (map (fun v => qsum (map (fun '(k, c) => if mem v k then Qabs c else 0) t)) vars) with
  | Some m, Some M => Some (2 * m, 2 * M)
  | _, _ => None
  end.

Inductive trange := TZero | TVals (m M : Q) | TError.
Definition temp_range_spin (t : terms) (vars : list label) : trange :=
  match vars, nonconst t with
  | [], _ => TZero
  | _, [] => TZero                   (* stale variables, no non-constant term (repair D12) *)
  | _, _ => match del_energies t vars with Some (m, M) => TVals m M | None => TError end
  end.

(* num_bits(val, log_trick) for a non-negative integer val *)
Fixpoint bit_length_pos (p : positive) : nat :=
  match p with xH => 1%nat | xO p' | xI p' => S (bit_length_pos p') end.
Definition bit_length (z : Z) : nat :=
  match z with Z0 => 0%nat | Zpos p => bit_length_pos p | Zneg p => bit_length_pos p end.
Definition qceil (q : Q) : Z := (- Qfloor (- q))%Z.
Definition num_bits (val : Q) (log_trick : bool) : result nat :=
  if Qlt_le_dec val 0 then Err ValueError
  else let z := qceil val in Ok (if log_trick then bit_length z else Z.to_nat z).
