(* qubovert/_pcbo.py: the sixteen logic constraint methods, written as the source writes them
   (nested PCBO() helper objects included), on top of add_eq of Model/PCBO.v *)
From QV.Model Require Import Base Matrix Arith Expr Extrema Sat PCBO.
Open Scope Q_scope.

Definition B (v : sx) : expr := sat_expr v.             (* BUFFER(v) *)
Definition sub1 (x : expr) : expr := EBin false OpSub (EScalar 1) x.
Definition esub (x y : expr) : expr := EBin false OpSub x y.
Definition eadd (x y : expr) : expr := EBin false OpAdd x y.
Definition emul (x y : expr) : expr := EBin false OpMul x y.

(* PCBO().add_constraint_eq_zero(P, lam=1, bounds=(0, 1)) as a polynomial *)
Definition tmp_eq01 (P : expr) : result model :=
  bind (ev P) (fun Pm => bind (add_eq empty_pcbo (tm Pm) 1 (Some 0, Some 1)) (fun '(t, _, _) => Ok t)).

Definition halves {A} (l : list A) : list A * list A := (firstn (length l / 2) l, skipn (length l / 2) l).

(* the polynomial and bounds each method hands to add_constraint_eq_zero *)
Definition logic_poly (g : gate) (is_eq : bool) (ops : list sx) : result (expr * Q * Q) :=
  match is_eq, g, ops with
  (* ---- add_constraint_eq_G(a, variables...) ---- *)
  | true, GAnd, a :: vs =>
      if (length vs <? 2)%nat then Err ValueError else
      let '(h1, h2) := halves vs in
      Ok (and_gadget_expr (B a) (e_and (map B h1)) (e_and (map B h2)), 0, 3)
  | true, GNand, a :: vs =>
      if (length vs <? 2)%nat then Err ValueError else
      let '(h1, h2) := halves vs in
      let b := e_and (map B h1) in let c := e_and (map B h2) in
      (* NOT(a) * (3 - 2 * (b + c)) + b * c *)
      Ok (eadd (emul (e_not (B a)) (esub (EScalar 3) (emul (EScalar 2) (eadd b c)))) (emul b c), 0, 3)
  | true, GOr, a :: vs =>
      if (length vs <? 2)%nat then Err ValueError else
      match vs with
      | [v1; v2] =>
          let b := B v1 in let c := B v2 in
          (* a + b + c + b * c - 2 * a * (b + c) *)
          Ok (esub (eadd (eadd (eadd (B a) b) c) (emul b c)) (emul (emul (EScalar 2) (B a)) (eadd b c)), 0, 3)
      | _ =>
          (* PCBO().add_constraint_NOR(variables...) - a *)
          bind (tmp_eq01 (sub1 (e_or (map B vs)))) (fun t1 =>
          bind (tmp_eq01 (sub1 (EM t1))) (fun t2 => Ok (esub (EM t2) (B a), -(1), 1)))
      end
  | true, GNor, a :: vs =>
      if (length vs <? 2)%nat then Err ValueError else
      match vs with
      | [v1; v2] =>
          let b := B v1 in let c := B v2 in
          (* 1 - a - b - c + b * c + 2 * a * (b + c) *)
          Ok (eadd (eadd (esub (esub (esub (EScalar 1) (B a)) b) c) (emul b c)) (emul (emul (EScalar 2) (B a)) (eadd b c)), 0, 3)
      | _ =>
          bind (tmp_eq01 (sub1 (e_or (map B vs)))) (fun t1 => Ok (esub (EM t1) (B a), -(1), 1))
      end
  | true, GXor, a :: vs =>
      (* PCBO().add_constraint_XNOR(variables...) - BUFFER(a) *)
      bind (tmp_eq01 (sub1 (e_xor (map B vs)))) (fun t1 =>
      bind (tmp_eq01 (sub1 (EM t1))) (fun t2 => Ok (esub (EM t2) (B a), -(1), 1)))
  | true, GXnor, a :: vs =>
      bind (tmp_eq01 (sub1 (e_xor (map B vs)))) (fun t1 => Ok (esub (EM t1) (B a), -(1), 1))
  | true, GBuffer, [a; b] => Ok (esub (B a) (B b), -(1), 1)
  | true, GNot, [a; b] =>
      (* PCBO().add_constraint_BUFFER(a) - BUFFER(b) *)
      bind (tmp_eq01 (e_not (B a))) (fun t1 => Ok (esub (EM t1) (B b), -(1), 1))
  (* ---- add_constraint_G(variables...) ---- *)
  | false, GAnd, vs => Ok (e_not (e_and (map B vs)), 0, 1)
  | false, GNand, vs => Ok (e_and (map B vs), 0, 1)
  | false, GOr, vs => Ok (sub1 (e_or (map B vs)), 0, 1)
  | false, GXor, vs => Ok (sub1 (e_xor (map B vs)), 0, 1)
  | false, GNor, vs => bind (tmp_eq01 (sub1 (e_or (map B vs)))) (fun t1 => Ok (sub1 (EM t1), 0, 1))
  | false, GXnor, vs => bind (tmp_eq01 (sub1 (e_xor (map B vs)))) (fun t1 => Ok (sub1 (EM t1), 0, 1))
  | false, GBuffer, [a] => Ok (e_not (B a), 0, 1)
  | false, GNot, [a] => Ok (B a, 0, 1)
  | _, _, _ => Err TypeError
  end.

(* the operands are Python expressions (AND(...), NOT(...), models): they are evaluated, in order, before the method is
   entered, so an error inside an operand comes before any check the method makes *)
Fixpoint ops_check (ops : list sx) : result unit :=
  match ops with
  | [] => Ok tt
  | SLbl _ :: ops' => ops_check ops'
  | o :: ops' => bind (ev (sat_expr o)) (fun _ => ops_check ops')
  end.

Definition add_logic (g : gate) (is_eq : bool) (m : model) (ops : list sx) (lam : Q) : result (model * warn * tag) :=
  bind (ops_check ops) (fun _ =>
  bind (logic_poly g is_eq ops) (fun '(P, lo, hi) =>
  bind (ev P) (fun Pm => add_eq m (tm Pm) lam (Some lo, Some hi)))).

(* the truth the method enforces *)
Definition gate_truth (g : gate) (bs : list bool) : bool :=
  match g with
  | GBuffer => match bs with [b] => b | _ => false end
  | GNot => match bs with [b] => negb b | _ => false end
  | GAnd => forallb (fun b => b) bs
  | GNand => negb (forallb (fun b => b) bs)
  | GOr => match bs with [] => true | _ => existsb (fun b => b) bs end
  | GNor => negb (match bs with [] => true | _ => existsb (fun b => b) bs end)
  | GXor => match bs with [] => true | _ => fold_left xorb bs false end
  | GXnor => negb (match bs with [] => true | _ => fold_left xorb bs false end)
  end.
Definition logic_holds (g : gate) (is_eq : bool) (x : env) (ops : list sx) : bool :=
  match is_eq, ops with
  | true, a :: vs => Bool.eqb (truth x a) (gate_truth g (map (truth x) vs))
  | true, [] => false
  | false, vs => gate_truth g (map (truth x) vs)
  end.
