(* DictArithmetic operators (qubovert/utils/_dict_arithmetic.py) on model
   records: in-place forms, copying forms, reflected forms. *)
From QV.Model Require Import Base Matrix.
Open Scope Q_scope.

Inductive operand := OModel (m : model) | ORaw (t : terms) | OScalar (c : Q).

Definition operand_terms (o : operand) : option terms :=
  match o with OModel m => Some (tm m) | ORaw t => Some t | OScalar _ => None end.

Definition neg_terms (t : terms) : terms := map (fun '(k, v) => (k, - v)) t.

(* self += other *)
Definition m_iadd (m : model) (o : operand) : result model :=
  match o with
  | OScalar c => m_additem m [] c
  | OModel b => m_addall m (tm b)
  | ORaw t => m_addall m t
  end.

(* self -= other : self[k] -= v *)
Definition m_isub (m : model) (o : operand) : result model :=
  match o with
  | OScalar c => m_additem m [] (- c)
  | OModel b => m_addall m (neg_terms (tm b))
  | ORaw t => m_addall m (neg_terms t)
  end.

(* for k in tuple(self.keys()): self[k] *= c   (keys are already squashed) *)
Fixpoint m_scale_keys (m : model) (ks : list key) (f : Q -> Q) : result model :=
  match ks with
  | [] => Ok m
  | k :: ks' => bind (m_getitem m k) (fun old => bind (m_setitem m k (f old)) (fun m' => m_scale_keys m' ks' f))
  end.
Definition m_scale (m : model) (f : Q -> Q) : result model :=
  m_scale_keys m (map fst (tm m)) f.

(* the double loop of __imul__ by a dict *)
Fixpoint m_mul_row (m : model) (k : key) (v : Q) (o : terms) : result model :=
  match o with
  | [] => Ok m
  | (ko, vo) :: o' => bind (m_additem m (k ++ ko) (v * vo)) (fun m' => m_mul_row m' k v o')
  end.
Fixpoint m_mul_rows (m : model) (items o : terms) : result model :=
  match items with
  | [] => Ok m
  | (k, v) :: items' => bind (m_mul_row m k v o) (fun m' => m_mul_rows m' items' o)
  end.

(* self.clear() as seen from __imul__: DictArithmetic only empties the dict;
   the Matrix classes re-run __init__ (PCBO/PCSO keep the ancilla counter: repair D11) *)
Definition clear_for_imul (m : model) : model :=
  match kd m with
  | KDict => with_tm m []
  | _ => let e := empty_model (kd m) in
         {| kd := kd e; tm := []; deg_c := None; vars_c := []; mp := []; next_label := 0%nat;
            anc := anc m; cons := []; nm := None |}
  end.

Definition m_imul (m : model) (o : operand) : result model :=
  match o with
  | OScalar c => m_scale m (fun v => v * c)
  | OModel b => m_mul_rows (clear_for_imul m) (tm m) (tm b)
  | ORaw t => m_mul_rows (clear_for_imul m) (tm m) t
  end.

Definition m_itruediv (m : model) (c : Q) : result model := m_scale m (fun v => v / c).

(* self **= n  (n a positive int, else ValueError) *)
Fixpoint m_pow_loop (m old : model) (n : nat) : result model :=
  match n with
  | O => Ok m
  | S n' => bind (m_imul m (OModel old)) (fun m' => m_pow_loop m' old n')
  end.
Definition m_ipow (m : model) (n : Z) : result model :=
  if (n <=? 0)%Z then Err ValueError
  else if (n =? 1)%Z then Ok m
  else bind (m_copy m) (fun old => m_pow_loop m old (Z.to_nat (n - 1))).

(* copying forms: d = self.copy(); d op= other *)
Definition m_add (m : model) (o : operand) : result model := bind (m_copy m) (fun d => m_iadd d o).
Definition m_sub (m : model) (o : operand) : result model := bind (m_copy m) (fun d => m_isub d o).
Definition m_mul (m : model) (o : operand) : result model := bind (m_copy m) (fun d => m_imul d o).
Definition m_pow (m : model) (n : Z) : result model := bind (m_copy m) (fun d => m_ipow d n).
Definition m_truediv (m : model) (c : Q) : result model := bind (m_copy m) (fun d => m_itruediv d c).
Definition m_neg (m : model) : result model := m_mul m (OScalar (-(1))).
(* other - self = -1*self + other ; other + self = self + other ; other * self = self * other *)
Definition m_rsub (m : model) (o : operand) : result model := bind (m_neg m) (fun d => m_add d o).
