(* Expression trees over models, raw dicts and scalars, interpreted with the
   operator dispatch of Python (forward, reflected and in-place forms). *)
From QV.Model Require Import Base Matrix Arith.
Open Scope Q_scope.

Inductive bop := OpAdd | OpSub | OpMul.

Inductive expr :=
| EModel (k : kind) (t : terms)                 (* cls(t) *)
| ERaw (t : terms)                              (* a plain dict *)
| EScalar (c : Q)
| EBin (inplace : bool) (o : bop) (a b : expr)  (* a o b   /   a o= b *)
| ESelf (inplace : bool) (o : bop) (a : expr)   (* x o x   /   x o= x  with one object x *)
| ENeg (a : expr)
| EPow (inplace : bool) (a : expr) (n : Z)
| EDiv (inplace : bool) (a : expr) (c : Q).

Definition apply_bop (inplace : bool) (o : bop) (m : model) (v : operand) : result model :=
  match o, inplace with
  | OpAdd, true => m_iadd m v | OpAdd, false => m_add m v
  | OpSub, true => m_isub m v | OpSub, false => m_sub m v
  | OpMul, true => m_imul m v | OpMul, false => m_mul m v
  end.
(* the left operand is not a model: Python falls back to the reflected method of the right one *)
Definition apply_rbop (o : bop) (m : model) (v : operand) : result model :=
  match o with OpAdd => m_add m v | OpSub => m_rsub m v | OpMul => m_mul m v end.

Fixpoint interp (e : expr) : result operand :=
  match e with
  | EModel k t => bind (m_create k t) (fun m => Ok (OModel m))
  | ERaw t => Ok (ORaw t)
  | EScalar c => Ok (OScalar c)
  | EBin ip o a b =>
      bind (interp a) (fun va => bind (interp b) (fun vb =>
        match va, vb with
        | OModel m, _ => bind (apply_bop ip o m vb) (fun r => Ok (OModel r))
        | _, OModel m => bind (apply_rbop o m va) (fun r => Ok (OModel r))
        | _, _ => Err TypeError
        end))
  | ESelf ip o a =>
      bind (interp a) (fun va =>
        match va with
        | OModel m => bind (apply_bop ip o m (OModel m)) (fun r => Ok (OModel r))
        | _ => Err TypeError
        end)
  | ENeg a =>
      bind (interp a) (fun va =>
        match va with OModel m => bind (m_neg m) (fun r => Ok (OModel r)) | _ => Err TypeError end)
  | EPow ip a n =>
      bind (interp a) (fun va =>
        match va with
        | OModel m => bind ((if ip then m_ipow else m_pow) m n) (fun r => Ok (OModel r))
        | _ => Err TypeError
        end)
  | EDiv ip a c =>
      bind (interp a) (fun va =>
        match va with
        | OModel m => if qzero c then Err ZeroDivisionError
                      else bind ((if ip then m_itruediv else m_truediv) m c) (fun r => Ok (OModel r))
        | _ => Err TypeError
        end)
  end.

(* ordinary polynomial arithmetic on values *)
Fixpoint qpow (x : Q) (n : nat) : Q := match n with O => 1 | S n' => x * qpow x n' end.
Definition bop_den (o : bop) (x y : Q) : Q :=
  match o with OpAdd => x + y | OpSub => x - y | OpMul => x * y end.
Fixpoint denote (env0 : env) (e : expr) : Q :=
  match e with
  | EModel _ t | ERaw t => eval env0 t
  | EScalar c => c
  | EBin _ o a b => bop_den o (denote env0 a) (denote env0 b)
  | ESelf _ o a => bop_den o (denote env0 a) (denote env0 a)
  | ENeg a => - denote env0 a
  | EPow _ a n => qpow (denote env0 a) (Z.to_nat n)
  | EDiv _ a c => denote env0 a / c
  end.

(* every model leaf satisfies P *)
Fixpoint leaves (P : kind -> Prop) (e : expr) : Prop :=
  match e with
  | EModel k _ => P k
  | ERaw _ | EScalar _ => True
  | EBin _ _ a b => leaves P a /\ leaves P b
  | ESelf _ _ a | ENeg a | EPow _ a _ | EDiv _ a _ => leaves P a
  end.
