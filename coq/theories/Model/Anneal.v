(* The simulated annealer: PCG32 (src/pcg_basic.c) and src/random.c bit-exactly on N, the two C
   kernels (src/anneal_quso.c, src/anneal_puso.c) on lists with exact rational arithmetic, and the Python
   front end (sim/_anneal.py).  exp() is not modelled: the acceptance test at T > 0 consults a table of
   rational enclosures of exp(-dE/T) supplied with the call; a decision that the table cannot settle
   makes the run Unknown (None). *)
From QV.Model Require Import Base Matrix Convert Reduce.
From Coq Require Import NArith.
Open Scope Q_scope.

(* ---- PCG32 ---- *)
Definition m64 : N := 18446744073709551616%N.
Definition m32 : N := 4294967296%N.
Record rng := { rst : N; rinc : N }.
Definition pcg_next (r : rng) : rng * N :=
  let old := rst r in
  let s' := ((old * 6364136223846793005 + rinc r) mod m64)%N in
  let xs := ((N.shiftr (N.lxor (N.shiftr old 18) old) 27) mod m32)%N in
  let rot := N.shiftr old 59 in
  let out := N.lor (N.shiftr xs rot) ((N.shiftl xs ((m32 - rot) mod 32)) mod m32)%N in
  ({| rst := s'; rinc := rinc r |}, out).
(* pcg32_srandom_r(rng, initstate, initseq) *)
Definition pcg_seed (initstate initseq : N) : rng :=
  let r0 := {| rst := 0; rinc := ((N.lor (N.shiftl initseq 1) 1) mod m64)%N |} in
  let (r1, _) := pcg_next r0 in
  let r2 := {| rst := ((rst r1 + initstate) mod m64)%N; rinc := rinc r1 |} in
  fst (pcg_next r2).
(* rand_init(seed) for seed >= 0 *)
Definition rand_init (seed : N) : rng := pcg_seed (seed mod m32)%N 54%N.
(* ldexp((double)pcg32_random_r(rng), -32) *)
Definition rand_double (r : rng) : rng * Q :=
  let (r', x) := pcg_next r in (r', Z.of_N x # 4294967296).
(* pcg32_boundedrand_r: rejection sampling, on explicit fuel *)
Fixpoint bounded_loop (fuel : nat) (r : rng) (bound threshold : N) : option (rng * N) :=
  match fuel with
  | O => None
  | S f => let (r', x) := pcg_next r in
           if (threshold <=? x)%N then Some (r', (x mod bound)%N) else bounded_loop f r' bound threshold
  end.
Definition rand_int (r : rng) (stop : nat) : option (rng * nat) :=
  let bound := N.of_nat stop in
  if (bound =? 0)%N then None else
  let threshold := (((m32 - bound) mod m32) mod bound)%N in
  match bounded_loop 64 r bound threshold with
  | Some (r', x) => Some (r', N.to_nat x)
  | None => None
  end.

(* ---- acceptance ---- *)
Definition exptab := list (Q * (Q * Q)).       (* x = dE/T  |->  enclosure of exp(-x) *)
Fixpoint tab_get (x : Q) (t : exptab) : option (Q * Q) :=
  match t with [] => None | (y, e) :: t' => if Qeq_bool x y then Some e else tab_get x t' end.
Definition qle0 (v : Q) : bool := match v ?= 0 with Gt => false | _ => true end.
Definition qpos (v : Q) : bool := match v ?= 0 with Gt => true | _ => false end.
Definition qltq (a b : Q) : bool := match a ?= b with Lt => true | _ => false end.

(* dE <= 0 || (T > 0 && rand_double(rng) < exp(-dE / T)): a uniform number is drawn only when dE > 0 and T > 0 *)
Definition accept (tab : exptab) (r : rng) (dE T : Q) : option (rng * bool) :=
  if qle0 dE then Some (r, true)
  else if qpos T then
    let (r', u) := rand_double r in
    match tab_get (dE / T) tab with
    | Some (lo, hi) => if qltq u lo then Some (r', true) else if qltq hi u then Some (r', false) else None
    | None => None
    end
  else Some (r, false).

(* ---- list helpers ---- *)
Fixpoint upd {A} (n : nat) (f : A -> A) (l : list A) : list A :=
  match n, l with
  | _, [] => []
  | O, x :: l' => f x :: l'
  | S n', x :: l' => x :: upd n' f l'
  end.
Definition zq (z : Z) : Q := inject_Z z.

(* ---- QUSO kernel ---- *)
Record quso_args := { qh : list Q; qnb : list (list (nat * Q)) }.   (* per spin: neighbours with couplings, in order *)

Definition sub_energy (a : quso_args) (state : list Z) (i : nat) (only_ge : bool) : Q :=
  fold_left (fun acc '(n, J) => if only_ge && (n <? i)%nat then acc else acc + J * zq (nth n state 0%Z))
            (nth i (qnb a) []) (nth i (qh a) 0).
Definition compute_flip (a : quso_args) (state : list Z) : list Q :=
  map (fun i => -(2) * zq (nth i state 0%Z) * sub_energy a state i false) (seq 0 (length state)).
(* flip_spin_dE[spin] *= -1; flip_spin_dE[n] += 4 * state[spin] * state[n] * J *)
Definition recompute_flip (a : quso_args) (state : list Z) (flip : list Q) (spin : nat) : list Q :=
  fold_left (fun fl '(n, J) => upd n (fun v => v + 4 * zq (nth spin state 0%Z) * zq (nth n state 0%Z) * J) fl)
            (nth spin (qnb a) []) (upd spin (fun v => v * -(1)) flip).
Definition quso_kernel_value (a : quso_args) (state : list Z) : Q :=
  fold_left (fun acc i => acc + zq (nth i state 0%Z) * sub_energy a state i true) (seq 0 (length state)) 0.

Record kstate := { ks_rng : rng; ks_state : list Z; ks_flip : list Q }.

Definition quso_step (a : quso_args) (tab : exptab) (in_order : bool) (T : Q) (k : kstate) (j : nat) : option kstate :=
  match (if in_order then Some (ks_rng k, j) else rand_int (ks_rng k) (length (ks_state k))) with
  | None => None
  | Some (r1, i) =>
      match accept tab r1 (nth i (ks_flip k) 0) T with
      | None => None
      | Some (r2, true) =>
          Some {| ks_rng := r2; ks_state := upd i Z.opp (ks_state k);
                  ks_flip := recompute_flip a (ks_state k) (ks_flip k) i |}
      | Some (r2, false) => Some {| ks_rng := r2; ks_state := ks_state k; ks_flip := ks_flip k |}
      end
  end.

Definition opt_fold {A B} (f : A -> B -> option A) (l : list B) (a : A) : option A :=
  fold_left (fun acc b => match acc with Some x => f x b | None => None end) l (Some a).

Definition quso_single (a : quso_args) (tab : exptab) (in_order : bool) (Ts : list Q) (r : rng) (state : list Z)
  : option (rng * list Z) :=
  match opt_fold (fun k T => opt_fold (quso_step a tab in_order T) (seq 0 (length state)) k) Ts
                 {| ks_rng := r; ks_state := state; ks_flip := compute_flip a state |} with
  | Some k => Some (ks_rng k, ks_state k)
  | None => None
  end.

(* state[j] = rand_double(&rng) < 0.5 ? 1 : -1 *)
Fixpoint random_state (n : nat) (r : rng) : rng * list Z :=
  match n with
  | O => (r, [])
  | S n' => let (r1, u) := rand_double r in
            let (r2, l) := random_state n' r1 in (r2, (if qltq u (1 # 2) then 1%Z else (-1)%Z) :: l)
  end.

Fixpoint anneal_loop (single : rng -> list Z -> option (rng * list Z)) (value : list Z -> Q)
         (n : nat) (len_state : nat) (init : option (list Z)) (r : rng) : option (list (list Z * Q)) :=
  match n with
  | O => Some []
  | S n' =>
      let (r1, s0) := match init with Some s => (r, s) | None => random_state len_state r end in
      match single r1 s0 with
      | None => None
      | Some (r2, s) =>
          match anneal_loop single value n' len_state init r2 with
          | Some l => Some ((s, value s) :: l)
          | None => None
          end
      end
  end.

Definition c_anneal_quso (a : quso_args) (tab : exptab) (Ts : list Q) (num_anneals : nat) (in_order : bool)
           (init : option (list Z)) (seed : N) : option (list (list Z * Q)) :=
  anneal_loop (quso_single a tab in_order Ts) (quso_kernel_value a)
              num_anneals (length (qh a)) init (rand_init seed).

(* ---- PUSO kernel ---- *)
Definition puso_args := list (key * Q).       (* non-constant terms in order: labels of the term, coupling *)
Definition term_prod (state : list Z) (k : key) : Z := fold_left (fun p i => (p * nth i state 0%Z)%Z) k 1%Z.
(* subgraphs[spin]: the terms that mention the spin, once per occurrence *)
Definition puso_subgraph_value (a : puso_args) (state : list Z) (spin : nat) : Q :=
  fold_left (fun acc '(k, c) =>
               fold_left (fun acc' i => if Nat.eqb i spin then acc' + c * zq (term_prod state k) else acc') k acc) a 0.
Definition puso_kernel_value (a : puso_args) (state : list Z) : Q :=
  fold_left (fun acc '(k, c) => acc + c * zq (term_prod state k)) a 0.

Record pstate := { ps_rng : rng; ps_state : list Z }.
Definition puso_step (a : puso_args) (tab : exptab) (in_order : bool) (T : Q) (k : pstate) (j : nat) : option pstate :=
  match (if in_order then Some (ps_rng k, j) else rand_int (ps_rng k) (length (ps_state k))) with
  | None => None
  | Some (r1, i) =>
      match accept tab r1 (-(2) * puso_subgraph_value a (ps_state k) i) T with
      | None => None
      | Some (r2, true) => Some {| ps_rng := r2; ps_state := upd i Z.opp (ps_state k) |}
      | Some (r2, false) => Some {| ps_rng := r2; ps_state := ps_state k |}
      end
  end.
Definition puso_single (a : puso_args) (tab : exptab) (in_order : bool) (Ts : list Q) (r : rng) (state : list Z)
  : option (rng * list Z) :=
  match opt_fold (fun k T => opt_fold (puso_step a tab in_order T) (seq 0 (length state)) k) Ts
                 {| ps_rng := r; ps_state := state |} with
  | Some k => Some (ps_rng k, ps_state k)
  | None => None
  end.
Definition c_anneal_puso (len_state : nat) (a : puso_args) (tab : exptab) (Ts : list Q) (num_anneals : nat)
           (in_order : bool) (init : option (list Z)) (seed : N) : option (list (list Z * Q)) :=
  anneal_loop (puso_single a tab in_order Ts) (puso_kernel_value a) num_anneals len_state init (rand_init seed).

(* ---- the Python front end ---- *)
Definition list_max (l : list nat) : nat := fold_left Nat.max l 0%nat.
Definition matrix_N (m : model) : nat := match vars_c m with [] => 0%nat | vs => S (list_max vs) end.

(* h, neighbors, J from the enumerated quadratic model, in items() order *)
Definition quso_flatten (N : nat) (t : terms) : quso_args :=
  fold_left (fun a '(k, v) =>
     match k with
     | [i] => {| qh := upd i (fun _ => v) (qh a); qnb := qnb a |}
     | [i; j] => {| qh := qh a; qnb := upd j (fun l => l ++ [(i, v)]) (upd i (fun l => l ++ [(j, v)]) (qnb a)) |}
     | _ => a
     end) t {| qh := repeat 0 N; qnb := repeat [] N |}.
Definition puso_flatten (t : terms) : puso_args := filter (fun '(k, _) => match k with [] => false | _ => true end) t.

(* the model the kernel runs on, the number of spins, the label of each spin index *)
Record prepared := { p_model : terms; p_N : nat; p_rmp : list (nat * label) }.
Definition identity_rmp (N : nat) : list (nat * label) := map (fun i => (i, i)) (seq 0 N).
Definition rmp_of (m : model) : list (nat * label) := map (fun '(l, n) => (n, l)) (mp m).

(* what the caller passes: a plain dict or a model object *)
Inductive asrc := SrcDict (t : terms) | SrcModel (m : model).
Definition src_items (s : asrc) : terms := match s with SrcDict t => t | SrcModel m => tm m end.
Definition src_kind (s : asrc) : option kind := match s with SrcDict _ => None | SrcModel m => Some (kd m) end.

Definition prep_matrix (m : model) : result prepared :=
  Ok {| p_model := tm m; p_N := matrix_N m; p_rmp := identity_rmp (matrix_N m) |}.

(* anneal_quso(L) *)
Definition prepare_quso (s : asrc) : result prepared :=
  match s with
  | SrcModel m =>
      match kd m with
      | KQusoM => prep_matrix m
      | KQuso => bind (quso_to_quso m) (fun e => Ok {| p_model := tm e; p_N := num_vars m; p_rmp := rmp_of m |})
      | _ => bind (m_create KQuso (tm m)) (fun L => bind (quso_to_quso L) (fun e =>
               Ok {| p_model := tm e; p_N := num_vars L; p_rmp := rmp_of L |}))
      end
  | SrcDict t => bind (m_create KQuso t) (fun L => bind (quso_to_quso L) (fun e =>
               Ok {| p_model := tm e; p_N := num_vars L; p_rmp := rmp_of L |}))
  end.
(* anneal_puso(H) *)
Definition prepare_puso (s : asrc) : result prepared :=
  let labelled (H : model) :=
    bind (match kd H with KQuso => quso_to_puso H | _ => puso_to_puso_relabel H end) (fun e =>
      Ok {| p_model := tm e; p_N := num_vars H; p_rmp := rmp_of H |}) in
  match s with
  | SrcModel m =>
      match kd m with
      | KQusoM | KPusoM => prep_matrix m
      | KQuso | KPuso | KPcso => labelled m
      | _ => bind (m_create KPuso (tm m)) labelled
      end
  | SrcDict t => bind (m_create KPuso t) labelled
  end.

Fixpoint assoc_get {A} (n : nat) (l : list (nat * A)) : option A :=
  match l with [] => None | (m, a) :: l' => if Nat.eqb n m then Some a else assoc_get n l' end.

(* init_state[k] = initial_state[reverse_mapping[k]] *)
Definition init_of (p : prepared) (initial : option (list (label * Z))) : option (list Z) :=
  match initial with
  | None => None
  | Some d => Some (map (fun k => match assoc_get k (p_rmp p) with
                                  | Some l => match assoc_get l d with Some v => v | None => 1%Z end
                                  | None => 1%Z end) (seq 0 (p_N p)))
  end.

Definition package (p : prepared) (res : list (list Z * Q)) : list (list (label * Z) * Q) :=
  let off := get_sq (p_model p) [] in
  map (fun '(s, v) => (map (fun k => (match assoc_get k (p_rmp p) with Some l => l | None => k end, nth k s 0%Z)) (seq 0 (p_N p)),
                       v + off)) res.

Inductive aout := AResults (l : list (list (label * Z) * Q)) | AUnknown | AErr (e : err).

Definition run_spin (quso : bool) (s : asrc) (tab : exptab) (Ts : list Q) (num_anneals : Z)
           (in_order : bool) (initial : option (list (label * Z))) (seed : N) : aout :=
  if (num_anneals <=? 0)%Z then AResults [] else
  match (if quso then prepare_quso s else prepare_puso s) with
  | Err e => AErr e
  | Ok p =>
      let n := Z.to_nat num_anneals in
      if Nat.eqb (p_N p) 0 then AResults (repeat ([], get_sq (p_model p) []) n) else
      match (if quso then c_anneal_quso (quso_flatten (p_N p) (p_model p)) tab Ts n in_order (init_of p initial) seed
             else c_anneal_puso (p_N p) (puso_flatten (p_model p)) tab Ts n in_order (init_of p initial) seed) with
      | Some res => AResults (package p res)
      | None => AUnknown
      end
  end.

(* the boolean wrappers: convert the model and the initial state, anneal, convert the states back *)
Definition b2s_z (v : Z) : Z := if (v =? 0)%Z then 1%Z else (-1)%Z.
Definition s2b_z (v : Z) : Z := if (v =? 1)%Z then 0%Z else 1%Z.
Definition run_bool (quso : bool) (s : asrc) (tab : exptab) (Ts : list Q) (num_anneals : Z)
           (in_order : bool) (initial : option (list (label * Z))) (seed : N) : aout :=
  match (if quso then qubo_to_quso (src_kind s) (src_items s) else pubo_to_puso (src_kind s) (src_items s)) with
  | Err e => AErr e
  | Ok L =>
      match run_spin quso (SrcModel L) tab Ts num_anneals in_order
                     (option_map (map (fun '(l, v) => (l, b2s_z v))) initial) seed with
      | AResults l => AResults (map (fun '(s, v) => (map (fun '(lb, z) => (lb, s2b_z z)) s, v)) l)
      | o => o
      end
  end.
