(* qubovert/problems: to_qubo / to_quso of the seven problem classes, built with the same item
   operations as the source, plus their decoders and validity tests. *)
From QV.Model Require Import Base Matrix Arith Expr Extrema Sat PCBO Logic Convert PCSO.
Open Scope Q_scope.

Definition zQ (z : Z) : Q := inject_Z z.
Definition nQ (n : nat) : Q := inject_Z (Z.of_nat n).

(* Q[k] += v for a list of updates, in order *)
Definition add_items (m : model) (l : terms) : result model := m_addall m l.

(* ---- VertexCover(edges): edges as pairs of vertex indices (vertices sorted by ordering_key) ---- *)
Definition vc_to_qubo (N : nat) (edges : list (nat * nat)) (A B : Q) : result model :=
  bind (add_items (empty_model KQuboM) (map (fun i => ([i], B)) (seq 0 N))) (fun Q0 =>
  fold_left (fun acc '(u, v) =>
     bind acc (fun Qm =>
     (* Q += PCBO().add_constraint_OR(iu, iv, lam=A) *)
     bind (add_logic GOr false empty_pcbo [SLbl u; SLbl v] A) (fun '(t, _, _) => m_iadd Qm (OModel t))))
    edges (Ok Q0)).
Definition vc_valid (edges : list (nat * nat)) (x : label -> bool) : bool :=
  forallb (fun '(u, v) => x u || x v) edges.

(* ---- NumberPartitioning(S): A * L * L ---- *)
Definition np_to_quso (S : list Q) (A : Q) : result model :=
  let L := EModel KQusoM (map (fun '(i, s) => ([i], s)) (combine (seq 0 (length S)) S)) in
  ev (EBin false OpMul (EBin false OpMul (EScalar A) L) L).
Definition np_valid (S : list Q) (z : label -> Z) : bool :=
  Qeq_bool (fold_left Qplus (map (fun '(i, s) => if (z i =? 1)%Z then s else 0) (combine (seq 0 (length S)) S)) 0)
           (fold_left Qplus (map (fun '(i, s) => if (z i =? 1)%Z then 0 else s) (combine (seq 0 (length S)) S)) 0).

(* ---- GraphPartitioning(edges): edges as (index pair, weight); self loops are dropped by __init__
        but counted in the degree ---- *)
Definition gp_degree (all_edges : list (nat * nat)) : nat :=
  let labs := flat_map (fun '(u, v) => [u; v]) all_edges in
  fold_left Nat.max (map (fun l => length (filter (Nat.eqb l) labs)) labs) 0%nat.
Definition gp_default_A (N : nat) (all_edges : list (nat * nat)) (B : Q) : Q :=
  nQ (Nat.min (2 * gp_degree all_edges)%nat N) * B / 8.
Definition gp_to_quso (N : nat) (edges : list (nat * nat * Q)) (A B : Q) : result model :=
  bind (pcso_add REq (empty_model KPcso) (map (fun i => ([i], 1)) (seq 0 N)) A true (None, None)) (fun '(C, _, _) =>
  bind (m_iadd (empty_model KQusoM) (OModel C)) (fun L1 =>
  bind (m_iadd L1 (OScalar (B * fold_left Qplus (map snd edges) 0 / 2))) (fun L2 =>
  add_items L2 (map (fun '(u, v, w) => ([u; v], - (w * B / 2))) edges)))).

(* ---- SetCover(U, V, weights, log_trick, M): V as lists of element indices ---- *)
Definition sc_in (alpha : nat) (Vk : list nat) : bool := existsb (Nat.eqb alpha) Vk.
Definition sc_filtered (V : list (list nat)) (alpha : nat) (start : nat) : list nat :=
  filter (fun k => sc_in alpha (nth k V [])) (seq start (length V - start)%nat).
(* int(log2(M)) + 1 *)
Fixpoint log2_nat (fuel n : nat) : nat := match fuel with O => 0%nat | S f => if (n <=? 1)%nat then 0%nat else S (log2_nat f (n / 2)%nat) end.
Definition sc_logM (M : nat) : nat := S (log2_nat M M).
Definition sc_x (N n : nat) (log_trick : bool) (alpha m : nat) : nat :=
  (N + alpha + n * (if log_trick then m else m - 1))%nat.
Definition sc_num_vars (N n M : nat) (log_trick : bool) : nat :=
  if log_trick then (N + n * (sc_logM M + 1))%nat else (N + n * M)%nat.

Definition sc_to_qubo (n : nat) (V : list (list nat)) (weights : list Q) (log_trick : bool) (M : nat) (A B : Q) : result model :=
  let N := length V in
  let x := sc_x N n log_trick in
  let lm := sc_logM M in
  let p2 (e : nat) : Q := pow2 e in
  let items_alpha (alpha : nat) : terms :=
    (if log_trick then
       flat_map (fun m =>
         ([x alpha m; x alpha m], A * (p2 (2 * m)%nat + 2 * p2 m))
         :: map (fun mp => ([x alpha m; x alpha mp], 2 * A * p2 (m + mp)%nat)) (seq (S m) (lm - m)%nat)
         ++ map (fun j => ([j; x alpha m], - (2 * A * p2 m))) (sc_filtered V alpha 0)) (seq 0 (S lm))
     else
       flat_map (fun m =>
         ([x alpha m; x alpha m], - A)
         :: map (fun mp => ([x alpha m; x alpha mp], 2 * A)) (seq (S m) (M - m)%nat)) (seq 1 M)
       ++ flat_map (fun m =>
         ([x alpha m; x alpha m], A * nQ m * nQ m)
         :: map (fun mp => ([x alpha m; x alpha mp], 2 * A * nQ m * nQ mp)) (seq (S m) (M - m)%nat)
         ++ map (fun j => ([j; x alpha m], - (2 * A * nQ m))) (sc_filtered V alpha 0)) (seq 1 M))
    ++ flat_map (fun i =>
         ([i], if log_trick then - A else A)
         :: map (fun j => ([i; j], 2 * A)) (sc_filtered V alpha (S i))) (sc_filtered V alpha 0) in
  bind (m_iadd (empty_model KQuboM) (OScalar (nQ n * A))) (fun Q0 =>
  bind (add_items Q0 (map (fun '(i, w) => ([i], w * B)) (combine (seq 0 N) weights))) (fun Q1 =>
  add_items Q1 (flat_map items_alpha (seq 0 n)))).
Definition sc_valid (n : nat) (V : list (list nat)) (x : label -> bool) : bool :=
  forallb (fun alpha => existsb (fun k => x k && sc_in alpha (nth k V [])) (seq 0 (length V))) (seq 0 n).

(* ---- BILP(c, S, b) ---- *)
Definition bilp_to_qubo (c : list Q) (S : list (list Q)) (b : list Q) (A B : Q) : result model :=
  let N := length c in
  bind (add_items (empty_model KQuboM) (map (fun '(i, ci) => ([i], B * ci)) (combine (seq 0 N) c))) (fun Q0 =>
  fold_left (fun acc '(Sj, bj) =>
     bind acc (fun Qm =>
     bind (m_iadd (empty_model KQuboM) (OScalar bj)) (fun T0 =>
     bind (add_items T0 (map (fun '(i, s) => ([i], - s)) (combine (seq 0 N) Sj))) (fun T1 =>
     (* Qtemp *= A * Qtemp *)
     bind (m_mul T1 (OScalar A)) (fun AT =>
     bind (m_imul T1 (OModel AT)) (fun T2 => m_iadd Qm (OModel T2)))))))
    (combine S b) (Ok Q0)).
Definition bilp_valid (S : list (list Q)) (b : list Q) (x : label -> bool) : bool :=
  forallb (fun '(Sj, bj) =>
    Qeq_bool (fold_left Qplus (map (fun '(i, s) => if x i then s else 0) (combine (seq 0 (length Sj)) Sj)) 0) bj)
    (combine S b).

(* ---- JobSequencing(job_lengths, num_workers, log_trick, M) ---- *)
Definition js_x (m : nat) (job worker : nat) : nat := (job * m + worker)%nat.
Definition js_y (N m : nat) (i worker : nat) : nat := (N * m + i * (m - 1) + worker - 1)%nat.
Definition js_num_vars (N m M : nat) (log_trick : bool) : nat :=
  if log_trick then (m * N + (m - 1) * sc_logM M)%nat else (m * N + (m - 1) * M)%nat.
Definition js_to_qubo (lengths : list Q) (m : nat) (log_trick : bool) (M : nat) (A B : Q) : result model :=
  let N := length lengths in
  let jobs := combine (seq 0 N) lengths in
  let maxM := if log_trick then sc_logM M else M in
  let cf (n : nat) : Q := if log_trick then pow2 n else nQ (S n) in
  bind (m_iadd (empty_model KQuboM) (OScalar (nQ N * A))) (fun Q0 =>
  bind (add_items Q0 (map (fun '(j, len) => ([js_x m j 0], B * len)) jobs)) (fun Q1 =>
  bind (add_items Q1 (flat_map (fun '(j, _) => flat_map (fun w =>
          ([js_x m j w], - (2 * A)) :: map (fun wp => ([js_x m j w; js_x m j wp], A)) (seq 0 m)) (seq 0 m)) jobs)) (fun Q2 =>
  add_items Q2 (flat_map (fun w =>
     flat_map (fun n =>
        map (fun np => ([js_y N m n w; js_y N m np w], A * (if log_trick then pow2 (n + np)%nat else nQ (S n) * nQ (S np)))) (seq 0 maxM)
        ++ flat_map (fun '(j, len) =>
             [([js_y N m n w; js_x m j w], 2 * A * len * cf n); ([js_y N m n w; js_x m j 0], - (2 * A * len * cf n))]) jobs)
       (seq 0 maxM)
     ++ flat_map (fun '(j, len) => flat_map (fun '(jp, lenp) =>
          let v := A * len * lenp in
          [([js_x m j w; js_x m jp w], v); ([js_x m j 0; js_x m jp 0], v);
           ([js_x m j 0; js_x m jp w], - v); ([js_x m j w; js_x m jp 0], - v)]) jobs) jobs)
    (seq 1 (m - 1)%nat))))).
(* every job is done by exactly one worker *)
Definition js_valid (N m : nat) (x : label -> bool) : bool :=
  forallb (fun j => Nat.eqb (length (filter (fun w => x (js_x m j w)) (seq 0 m))) 1) (seq 0 N).

(* ---- AlternatingSectorsChain(N, chain_length, min_strength, max_strength) ---- *)
Definition asc_to_quso (N chain : nat) (min_s max_s : Q) (pbc : bool) : result model :=
  let strength (q : nat) : Q := if Nat.even (q / chain)%nat then - max_s else - min_s in
  bind (m_update (empty_model KQusoM) (map (fun q => ([q; S q], strength q)) (seq 0 (N - 1)%nat))) (fun L =>
  if pbc then m_setitem L [(N - 1)%nat; 0%nat] (strength (N - 1)%nat) else Ok L).
Definition asc_valid (N : nat) (z : label -> Z) : bool :=
  forallb (fun i => (z i =? 1)%Z) (seq 0 N) || forallb (fun i => negb (z i =? 1)%Z) (seq 0 N).
