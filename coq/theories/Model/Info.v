(* qubovert/utils/_info.py: get_info / create_from_info *)
From QV.Model Require Import Base Matrix Arith Expr Extrema Sat PCBO.
Open Scope Q_scope.

Record info := { i_kind : kind; i_terms : terms; i_name : option nat;
                 i_mapping : option (list (label * nat));     (* present for the labelled kinds *)
                 i_anc : option nat;                          (* present for PCBO / PCSO *)
                 i_cons : list (rel * terms) }.

Definition is_pc (k : kind) : bool := match k with KPcbo | KPcso => true | _ => false end.

Definition get_info (m : model) : info :=
  {| i_kind := kd m; i_terms := tm m; i_name := nm m;
     i_mapping := if is_labelled (kd m) then Some (mp m) else None;
     i_anc := if is_pc (kd m) then Some (anc m) else None;
     i_cons := if is_pc (kd m) then cons m else [] |}.

(* method(x, lam=0): the polynomial is re-wrapped (PUBO(x) / PUSO(x)) and recorded, nothing else happens *)
Fixpoint replay_cons (m : model) (cs : list (rel * terms)) : result model :=
  match cs with
  | [] => Ok m
  | (r, P) :: cs' =>
      bind (m_create (if is_spin (kd m) then KPuso else KPubo) P) (fun P' =>
      replay_cons (append_constraint m r (tm P')) cs')
  end.

Definition with_info (m : model) (name : option nat) (mapping : option (list (label * nat))) (a : option nat) : model :=
  {| kd := kd m; tm := tm m; deg_c := deg_c m; vars_c := vars_c m;
     mp := match mapping with Some mpx => mpx | None => mp m end;      (* set_mapping: _next_label is not touched *)
     next_label := next_label m;
     anc := match a with Some (S n) => S n | _ => anc m end;           (* only when truthy *)
     cons := cons m; nm := name |}.

Definition create_from_info (i : info) : result model :=
  bind (m_create (i_kind i) (i_terms i)) (fun m =>
  replay_cons (with_info m (i_name i) (i_mapping i) (i_anc i)) (i_cons i)).
